----------------------------- MODULE Transport -----------------------------
(* C18: the receive path of the event loop over a kernel socket buffer and (for wss) a TLS record       *)
(* layer.  Readiness (poll/select/kqueue) sees only the kernel buffer; the TLS layer decrypts one       *)
(* record at a time into its own buffer and may hand out fewer bytes than asked for.  The client loop   *)
(* is selector.wait() (with the pending() short-cut of lomond/selectors.py) followed by recv_into().     *)
(* Byte counts only; bursts consist of whole TLS records.                                               *)
EXTENDS Naturals, Sequences, FiniteSets, TLC, Json

CONSTANTS Buf,              \* size of the client's receive buffer (BUFFER_SIZE)
          Records,          \* possible TLS record sizes (each <= Buf, as 16 KiB <= 64 KiB in reality)
          Shorts,           \* possible caps on what one TLS read returns
          BurstSizes,       \* possible burst sizes in bytes
          MaxBursts,
          PendingShortcut   \* TRUE: wait() returns at once while the TLS layer holds decrypted bytes (the code as it is)

VARIABLES tls, rec, short, bursts,   \* the scenario: transport kind, record size, short-read cap, bursts still to arrive
          sent,                       \* burst sizes that have arrived (history, the script)
          kbuf, tbuf, consumed, arrived, pc, stalled
vars == <<tls, rec, short, bursts, sent, kbuf, tbuf, consumed, arrived, pc, stalled>>

Init == /\ tls \in BOOLEAN /\ rec \in Records /\ short \in Shorts
        /\ bursts \in 0..MaxBursts /\ sent = <<>>
        /\ kbuf = 0 /\ tbuf = 0 /\ consumed = 0 /\ arrived = 0 /\ pc = "wait" /\ stalled = FALSE

Min(a, b) == IF a < b THEN a ELSE b
\* selector.wait(): short-cut on pending(), otherwise kernel readiness; blocking lets the next burst arrive
Wait ==
  /\ pc = "wait"
  /\ IF PendingShortcut /\ tls /\ tbuf > 0 THEN pc' = "recv" /\ UNCHANGED <<bursts, sent, kbuf, arrived, stalled>>
     ELSE IF kbuf > 0 THEN pc' = "recv" /\ UNCHANGED <<bursts, sent, kbuf, arrived, stalled>>
     ELSE \* about to block: nothing may be left undelivered in the TLS layer
          /\ stalled' = (stalled \/ tbuf > 0)
          /\ IF bursts = 0 THEN pc' = "done" /\ UNCHANGED <<bursts, sent, kbuf, arrived>>
             ELSE \E b \in BurstSizes : /\ bursts' = bursts - 1 /\ sent' = Append(sent, b)
                                        /\ kbuf' = kbuf + b /\ arrived' = arrived + b /\ pc' = "recv"
  /\ UNCHANGED <<tls, rec, short, tbuf, consumed>>

\* recv_into(buffer, max): plain TCP hands out what the kernel has; TLS decrypts one record when its buffer is empty
Recv ==
  /\ pc = "recv"
  /\ LET max == IF PendingShortcut /\ tls /\ tbuf > 0 THEN tbuf ELSE Buf IN
     IF ~tls THEN LET n == Min(max, kbuf) IN kbuf' = kbuf - n /\ consumed' = consumed + n /\ UNCHANGED tbuf
     ELSE LET r == IF tbuf = 0 THEN Min(rec, kbuf) ELSE 0
              t1 == tbuf + r
              n == Min(Min(max, t1), short)
          IN kbuf' = kbuf - r /\ tbuf' = t1 - n /\ consumed' = consumed + n
  /\ pc' = "wait"
  /\ UNCHANGED <<tls, rec, short, bursts, sent, arrived, stalled>>

Next == Wait \/ Recv
Spec == Init /\ [][Next]_vars

\* C18: whenever the loop blocks (or ends), everything that has arrived has been consumed
NoStall == ~stalled
Drained == pc = "done" => consumed = arrived /\ tbuf = 0 /\ kbuf = 0
BlockOnlyWhenDrained == (pc = "wait" /\ kbuf = 0 /\ ~(PendingShortcut /\ tls /\ tbuf > 0)) => (PendingShortcut => consumed = arrived)
Emit == pc = "done" => PrintT(ToJson([tls |-> tls, rec |-> rec, short |-> short, bursts |-> sent]))
=============================================================================
