----------------------------- MODULE Mon_C17 -----------------------------
(* C17: each connect() starts from a clean slate.                                                      *)
(* Judged object: [fresh |-> trace of a new object on history 2, chained |-> trace of one object on     *)
(* history 1 then history 2].  The observable of the later connection must equal the fresh one, and    *)
(* every handshake key of the object must be new.                                                       *)
EXTENDS MonCommon
Observable(tr) == SelectSeq(tr, LAMBDA r : r.k \in {"ev", "wr", "wrf", "call", "stop", "escape", "hang"} /\ ~(r.k = "ev" /\ r.name = "back_off"))
Verdict(x) ==
  LET ch == x.chained
      cpos == { i \in 1..Len(ch) : ch[i].k = "ev" /\ ch[i].name = "connecting" }
      second == IF Cardinality(cpos) < 2 THEN 0 ELSE CHOOSE i \in cpos : Cardinality({ j \in cpos : j < i }) = 1
      later == IF second = 0 THEN <<>> ELSE SubSeq(ch, second, Len(ch))
      keys == SelectSeq(ch, LAMBDA r : r.k = "key")
  IN FirstFailing(<<
    <<"no_second_connection", second # 0>>,
    <<"later_connection_differs_from_a_fresh_websocket", Observable(later) = Observable(x.fresh)>>,
    <<"handshake_key_reused", \A i \in 1..Len(keys) : \A j \in 1..Len(keys) : i # j => keys[i].v # keys[j].v>>
  >>)
=============================================================================
