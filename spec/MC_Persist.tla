----------------------------- MODULE MC_Persist -----------------------------
EXTENDS Persist
MCWaits == { [min |-> 0, max |-> 0], [min |-> 1, max |-> 1], [min |-> 5, max |-> 30], [min |-> 0, max |-> 1], [min |-> 2, max |-> 1000] }
\* (min_wait = max_wait = 0 and a draw of exactly 0: a back-off of zero seconds must still consult the exit event)
MCWaitsQ == { [min |-> 5, max |-> 30], [min |-> 0, max |-> 1], [min |-> 2, max |-> 1000], [min |-> 0, max |-> 0] }
MCDraws == { <<0, 1>>, <<1, 2>>, <<1023, 1024>> }
MCDrawsQ == { <<0, 1>>, <<1023, 1024>> }
=============================================================================
