----------------------------- MODULE Mon_C13 -----------------------------
(* C13: abandoning the event loop at any event releases the socket and its selector.                   *)
EXTENDS MonCommon
Verdict(tr) ==
  LET endr == Last(tr)
      abandoned == \E i \in 1..Len(tr) : tr[i].k = "abandon"
  IN IF ~abandoned THEN "ok"
     ELSE FirstFailing(<<
       <<"no_final_state", endr.k = "end">>,
       <<"socket_left_open_after_abandon", \A i \in 1..Len(endr.socks) : endr.socks[i].closed>>,
       <<"selector_left_open_after_abandon", \A i \in 1..Len(endr.sels) : endr.sels[i].closed>>
     >>)
PrefixOK(tr) == TRUE
=============================================================================
