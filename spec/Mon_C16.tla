----------------------------- MODULE Mon_C16 -----------------------------
(* C16: persist() reconnects for ever with bounded, growing, resettable back-off.                      *)
(* Judged object: [w (min,max), hist (attempt outcomes, draws, stop flags as scripted), names (per        *)
(* attempt: the event names a plain connect() yields for that outcome), kw (poll, ping_rate,             *)
(* ping_timeout handed to persist), tr].                                                                *)
EXTENDS MonCommon

IsEv(r, names)  == r.k = "ev" /\ r.name \in names
LeQ(a, b) == a[1] * b[2] <= b[1] * a[2]
EqQ(a, b) == a[1] * b[2] = b[1] * a[2]
Min(a, b) == IF a < b THEN a ELSE b
ReachesReady(names) == \E i \in 1..Len(names) : names[i] = "ready"
RECURSIVE Consecutive(_, _)
Consecutive(att, i) == IF i = 0 \/ ReachesReady(att[i]) THEN 0 ELSE 1 + Consecutive(att, i - 1)

\* split the event names at the BackOff events
RECURSIVE Split(_, _, _)
Split(names, i, cur) == IF i > Len(names) THEN (IF cur = <<>> THEN <<>> ELSE <<cur>>)
                        ELSE IF names[i] = "back_off" THEN <<cur>> \o Split(names, i + 1, <<>>)
                        ELSE Split(names, i + 1, Append(cur, names[i]))

Verdict(x) ==
  LET tr == x.tr  n == Len(tr)
      evs == Events(tr)
      names == NamesOf(evs)
      att == Split(names, 1, <<>>)                       \* observed attempts (event names between back-offs)
      backs == SelectSeq(evs, LAMBDA e : e.name = "back_off")
      waits == SelectSeq(tr, LAMBDA r : r.k = "bwait")
      ccalls == SelectSeq(tr, LAMBDA r : r.k = "connectcall")
      stopped == \E i \in 1..n : tr[i].k = "stop"
      nA == Len(x.hist)
      trailing == Len(names) > 0 /\ names[Len(names)] # "back_off"      \* events after the last back-off
  IN FirstFailing(<<
    <<"exception_escaped", \A i \in 1..n : ~(tr[i].k \in {"escape", "hang"})>>,
    <<"not_one_backoff_per_ended_attempt", Len(backs) = nA /\ Len(waits) = nA /\ Len(att) = nA /\ ~trailing>>,
    <<"connection_events_not_passed_through_unchanged", \A i \in 1..Min(nA, Len(att)) : att[i] = x.names[i]>>,
    <<"backoff_delay_differs_from_wait", \A i \in 1..Min(Len(backs), Len(waits)) : EqQ(backs[i].delay, waits[i].delay)>>,
    <<"delay_out_of_bounds", \A i \in 1..Len(backs) : LeQ(<<x.w.min, 1>>, backs[i].delay) /\ LeQ(backs[i].delay, <<x.w.max, 1>>)>>,
    <<"delay_is_not_min_plus_draw_times_doubling_limit",
        \A i \in 1..Min(Len(backs), nA) :
           LET k == Consecutive(att, i)
               u == x.hist[i].draw
               lim == IF k >= 30 THEN x.w.max - x.w.min ELSE Min(x.w.max - x.w.min, 2 ^ k)   \* (max - min < 2^30)
           IN EqQ(backs[i].delay, <<x.w.min * u[2] + u[1] * lim, u[2]>>)>>,
    <<"ended_without_exit_event", ~stopped \/ (waits # <<>> /\ waits[Len(waits)].ret)>>,
    <<"continued_after_exit_event", \A i \in 1..(Len(waits) - 1) : ~waits[i].ret>>,
    <<"did_not_stop_after_exit_event", (waits = <<>> \/ ~waits[Len(waits)].ret) \/ stopped>>,
    <<"connect_not_given_poll_and_ping_settings",
        Len(ccalls) = nA /\ \A i \in 1..Len(ccalls) : ccalls[i].poll = x.kw.poll /\ ccalls[i].ping_rate = x.kw.ping_rate /\ ccalls[i].ping_timeout = x.kw.ping_timeout>>
  >>)
=============================================================================
