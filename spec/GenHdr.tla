------------------------------- MODULE GenHdr -------------------------------
(* C04 part (ii): the verdict RFC 6455 gives for each of the 65536 possible first two bytes of a frame,   *)
(* in each context (permessage-deflate negotiated or not; no fragmented message open / text open / binary *)
(* open).  The frame is completed with the minimal legal remainder: extended length 126 resp. 65536,      *)
(* payload of that many bytes (ASCII; for a Close frame the code 1000 followed by ASCII).                 *)
EXTENDS Naturals, Sequences, FiniteSets, TLC, Json, Wire
Ctxs == { [deflate |-> d, open |-> o] : d \in BOOLEAN, o \in {"none", "text", "bin"} }
V(b1, m, l7, ctx) ==
  LET h == DecodeHdr(b1, m * 128 + l7)
      n == IF l7 < 126 THEN l7 ELSE IF l7 = 126 THEN 126 ELSE 65536
      f == [op |-> h.op, fin |-> h.fin, rsv1 |-> h.rsv1, rsv2 |-> h.rsv2, rsv3 |-> h.rsv3, mask |-> h.mask, pl |-> PVBlob(n, 0), ann |-> "len"]
      fv == FrameViolation(f, ctx.deflate)
  IN IF fv # "ok" THEN 1
     ELSE IF IsControl(h.op) THEN (IF h.rsv1 = 1 THEN 2 ELSE IF h.op = OpClose /\ n = 1 THEN 1 ELSE 0)   \* (RSV1 with the extension on: content-dependent)
     ELSE IF h.op = OpCont /\ ctx.open = "none" THEN 1
     ELSE IF h.op \in {OpText, OpBin} /\ ctx.open # "none" THEN 1
     ELSE IF h.rsv1 = 1 THEN 2          \* compressed payload: the verdict depends on the content, not on the header
     ELSE 0
\* 0 = must be accepted, 1 = protocol violation, 2 = either
VARIABLE st
Init == st = "init"
Next == st = "init" /\ st' = "done"
Spec == Init /\ [][Next]_st
EmitTable == st # "done" \/ \A ctx \in Ctxs : \A b1 \in 0..255 : \A m \in 0..1 :
               PrintT(ToJson([hdr |-> <<b1, m>>, deflate |-> ctx.deflate, open |-> ctx.open, v |-> [l7 \in 1..128 |-> V(b1, m, l7 - 1, ctx)]]))
=============================================================================
