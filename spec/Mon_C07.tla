----------------------------- MODULE Mon_C07 -----------------------------
(* C07: every connection attempt yields a well-formed, finite event sequence.                          *)
(* Monitor over event names, the end of iteration (stop), exceptions escaping next() (escape) and the  *)
(* virtual-step watchdog (hang).                                                                       *)
EXTENDS MonCommon

AfterReadyOnly == {"text", "binary", "ping", "pong", "poll", "closing", "closed"}
Anytime == {"rejected", "protocol_error", "unresponsive"}

\* the relevant projection of a trace: names of events, "stop", "escape", "hang"
Proj(tr) == LET rs == SelectSeq(tr, LAMBDA r : r.k \in {"ev", "stop", "escape", "hang"})
            IN [i \in 1..Len(rs) |-> IF rs[i].k = "ev" THEN rs[i].name ELSE rs[i].k]

MonInit == [ph |-> "start", ready |-> FALSE, why |-> "ok"]
Bad(m, why) == [m EXCEPT !.ph = "bad", !.why = IF m.ph = "bad" THEN m.why ELSE why]
MonStep(m, n) ==
  CASE m.ph = "bad" -> m
    [] n = "escape" -> Bad(m, "exception_escaped")
    [] n = "hang" -> Bad(m, "does_not_terminate")
    [] m.ph = "start" -> IF n = "connecting" THEN [m EXCEPT !.ph = "connecting"] ELSE Bad(m, "connecting_not_first")
    [] m.ph = "connecting" ->
         IF n = "connect_fail" THEN [m EXCEPT !.ph = "terminal"]
         ELSE IF n = "connected" THEN [m EXCEPT !.ph = "up"]
         ELSE Bad(m, "expected_connect_fail_or_connected")
    [] m.ph = "up" ->
         IF n = "ready" THEN (IF m.ready THEN Bad(m, "ready_twice") ELSE [m EXCEPT !.ready = TRUE])
         ELSE IF n \in AfterReadyOnly THEN (IF m.ready THEN m ELSE Bad(m, "message_or_poll_before_ready"))
         ELSE IF n \in Anytime THEN m
         ELSE IF n = "disconnected" THEN [m EXCEPT !.ph = "terminal"]
         ELSE IF n = "stop" THEN Bad(m, "stopped_without_terminal_event")
         ELSE Bad(m, "unexpected_event_while_connected")
    [] m.ph = "terminal" -> IF n = "stop" THEN [m EXCEPT !.ph = "done"] ELSE Bad(m, "event_after_terminal_event")
    [] m.ph = "done" -> Bad(m, "event_after_stop")
    [] OTHER -> Bad(m, "internal")

RECURSIVE MonRunFrom(_, _, _)
MonRunFrom(m, ns, i) == IF i > Len(ns) THEN m ELSE MonRunFrom(MonStep(m, ns[i]), ns, i + 1)
MonRun(ns) == MonRunFrom(MonInit, ns, 1)

\* verdict on a complete trace
Verdict(tr) == LET m == MonRun(Proj(tr)) IN
               IF m.ph = "bad" THEN m.why ELSE IF m.ph = "done" THEN "ok" ELSE "iteration_did_not_finish"
\* verdict on a prefix (used as an invariant on the model in every reachable state)
PrefixOK(tr) == MonRun(Proj(tr)).ph # "bad"
=============================================================================
