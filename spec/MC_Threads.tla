---- MODULE MC_Threads ----
EXTENDS Threads
P1 == << <<"close">>, <<"zsend", "send">>, <<"zsend", "close">> >>
P2 == << <<"zsend", "zsend">>, <<"zsend", "ctl">>, <<"ctl", "send">> >>
P3 == << <<"close", "send">>, <<"close">>, <<"ctl", "close">> >>
====
