---- MODULE MC_Threads ----
EXTENDS Threads
P1 == << <<"close">>, <<"zsend", "send">>, <<"zsend", "close">> >>
P2 == << <<"zsend", "zsend">>, <<"zsend", "ctl">>, <<"ctl", "send">> >>
P3 == << <<"close", "send">>, <<"close">>, <<"ctl", "close">> >>
\* the loop processes the server's Close (echo, or the reply to our own Close) against close() and sends on other threads
P4 == << <<"close">>, <<"srvclose">>, <<"send", "send">> >>
P5 == << <<"srvclose", "srvclose">>, <<"close", "send">>, <<"ctl">> >>
====
