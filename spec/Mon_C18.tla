----------------------------- MODULE Mon_C18 -----------------------------
(* C18: available data is always drained without waiting for more traffic.                             *)
(* Trace records of the transport model: `arr` (a burst reached the kernel buffer: t, upto = bytes      *)
(* arrived after the HTTP reply), `block` (the selector is about to block: tbuf = decrypted bytes the   *)
(* TLS layer still holds, consumed/arrived byte counts), `stall` (a read that would block for ever).    *)
EXTENDS MonCommon

IsEv(r, names)  == r.k = "ev" /\ r.name \in names
Verdict(tr) ==
  LET n == Len(tr)
      fs == SelectSeq(Srv(tr), LAMBDA r : r.it = "f")
      ref == Ref(fs, CfgOf(tr).compress)
      arrs == SelectSeq(tr, LAMBDA r : r.k = "arr")
      blocks == SelectSeq(tr, LAMBDA r : r.k = "block")
      mevs == MessageEvents(tr)
      \* virtual time at which the byte at offset `off - 1` (the last byte of something ending at off) arrived
      ArrivalTime(off) == LET c == { i \in 1..Len(arrs) : arrs[i].upto >= off } IN
                          IF c = {} THEN -1 ELSE arrs[CHOOSE i \in c : \A j \in c : i <= j].t
      pings == SelectSeq(ref.msgs, LAMBDA m : m.op = OpPing)
      pongs == SelectSeq(tr, LAMBDA r : r.k = "wr" /\ r.what = "frame" /\ r.op = OpPong)
      k == IF Len(mevs) < Len(ref.msgs) THEN Len(mevs) ELSE Len(ref.msgs)
  IN FirstFailing(<<
    <<"read_that_can_never_return", \A i \in 1..n : ~(tr[i].k \in {"stall", "hang", "escape"})>>,
    <<"blocked_with_decrypted_data_in_the_tls_layer", \A i \in 1..Len(blocks) : blocks[i].tbuf = 0>>,
    <<"blocked_with_unconsumed_data", \A i \in 1..Len(blocks) : blocks[i].consumed = blocks[i].arrived>>,
    <<"message_not_delivered", ref.viol # 0 \/ Len(mevs) = Len(ref.msgs)>>,
    <<"message_delivered_later_than_its_last_byte_arrived",
        \A i \in 1..k : mevs[i].t = ArrivalTime(fs[ref.msgs[i].at].end)>>,
    <<"automatic_reply_written_later_than_the_request_arrived",
        Len(pongs) # Len(pings) \/ \A i \in 1..Len(pings) : pongs[i].t = ArrivalTime(fs[pings[i].at].end)>>
  >>)
=============================================================================
