------------------------------ MODULE MC_Proxy ------------------------------
EXTENDS Proxy
P(s, h, p, u, pw) == [scheme |-> s, host |-> h, port |-> p, user |-> u, pass |-> pw]
T(s, h, p) == [scheme |-> s, host |-> h, port |-> p]
MCTargets == { T("ws", "example.com", 80), T("wss", "secure.example.com", 443), T("ws", "ws.example.org", 8080), T("wss", "example.com", 9443) }
P1 == P("http", "proxy.local", 3128, "", "")
P2 == P("http", "proxy.local", 0, "", "")
P3 == P("https", "sproxy.local", 0, "user", "")
P4 == P("http", "proxy.local", 8888, "user", "p4ss")
MCMappings == { [http |-> P1, https |-> NoProxy], [http |-> NoProxy, https |-> P1], [http |-> P2, https |-> P3], [http |-> NoProxy, https |-> NoProxy],
                [http |-> P4, https |-> P4], [http |-> P3, https |-> P2] }
MCCuts == {"one", "two", "bytewise"}
=============================================================================
