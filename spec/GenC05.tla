------------------------------ MODULE GenC05 ------------------------------
(* Generator of message-level UTF-8 scenarios: every malformed-sequence class and every well-formed    *)
(* class of Table 3-7, embedded at the start / middle / end of a short text, split into fragments at   *)
(* every subset of byte boundaries, with or without a Ping between the fragments, or used as a close   *)
(* reason.  Each state "done" is one scenario in the script format of the session model.               *)
EXTENDS Naturals, Sequences, FiniteSets, TLC, Json, Wire
CONSTANTS MaxPayload      \* longest payload that is split in every possible way

WellFormedCores == { <<127>>, <<194, 128>>, <<223, 191>>, <<224, 160, 128>>, <<237, 159, 191>>, <<238, 128, 128>>,
                     <<239, 191, 191>>, <<240, 144, 128, 128>>, <<244, 143, 191, 191>>, <<>> }
MalformedCores == { <<192, 128>>, <<193, 191>>,                       \* overlong 2-byte forms
                    <<224, 128, 128>>, <<224, 159, 191>>,             \* overlong 3-byte forms
                    <<240, 128, 128, 128>>, <<240, 143, 191, 191>>,   \* overlong 4-byte forms
                    <<237, 160, 128>>, <<237, 191, 191>>,             \* surrogates
                    <<244, 144, 128, 128>>, <<245, 128, 128, 128>>, <<255>>, <<254>>,   \* > U+10FFFF, invalid lead bytes
                    <<128>>, <<191>>,                                 \* stray continuation
                    <<194>>, <<224, 160>>, <<240, 144, 128>>, <<226, 130>>,            \* truncated
                    <<194, 65>>, <<226, 130, 65>> }                   \* continuation replaced by ASCII
Pre == { <<>>, <<97>> }
Suf == { <<>>, <<98>> }
Payloads == { p \o c \o s : p \in Pre, c \in WellFormedCores \cup MalformedCores, s \in Suf }

F(op, fin, pl) == [t |-> "f", op |-> op, fin |-> fin, rsv1 |-> 0, rsv2 |-> 0, rsv3 |-> 0, mask |-> FALSE, pl |-> PV(pl), ann |-> "len"]
Ping == F(9, 1, <<>>)
\* the fragments of payload p cut at the positions in `cuts` (a subset of 1..Len(p)-1, or {0} for an empty first fragment)
CutPoints(p, cuts) == LET S == cuts \cup {Len(p)} IN S
RECURSIVE Pieces(_, _, _)
Pieces(p, from, cuts) ==
  IF cuts = {} THEN <<SubSeq(p, from + 1, Len(p))>>
  ELSE LET c == CHOOSE x \in cuts : \A y \in cuts : x <= y IN <<SubSeq(p, from + 1, c)>> \o Pieces(p, c, cuts \ {c})
Fragments(p, cuts, ping) ==
  LET ps == Pieces(p, 0, cuts)
      RECURSIVE Build(_)
      Build(i) == IF i > Len(ps) THEN <<>>
                  ELSE <<F(IF i = 1 THEN 1 ELSE 0, IF i = Len(ps) THEN 1 ELSE 0, ps[i])>>
                       \o (IF ping /\ i < Len(ps) THEN <<Ping>> ELSE <<>>) \o Build(i + 1)
  IN Build(1)

VARIABLES st, script
Init == st = "init" /\ script = <<>>
Http == [t |-> "http", v |-> "ok"]
Mk0(stream) == [dns |-> "ok", net |-> <<"ok">>, writes |-> <<>>, stream |-> <<Http>> \o stream,
                steps |-> [i \in 1..(Len(stream) + 1) |-> [kind |-> "data", dt |-> 0, items |-> 1]], react |-> <<>>]
Mk(stream) == Mk0(stream \o <<F(1, 1, <<122>>)>>)      \* a valid text frame follows: it must not be delivered after an error
Next == /\ st = "init" /\ st' = "done"
        /\ \/ \E p \in Payloads : \E ping \in BOOLEAN :
                \E cuts \in (IF Len(p) <= MaxPayload THEN SUBSET (0..(Len(p) - 1)) ELSE { {}, {1}, {Len(p) - 1} }) :
                  /\ (ping => cuts # {})
                  /\ script' = Mk(Fragments(p, cuts, ping))
           \/ \E c \in WellFormedCores \cup MalformedCores :          \* as a close reason
                script' = Mk0(<<F(8, 1, <<3, 232>> \o c)>>)
Spec == Init /\ [][Next]_<<st, script>>
Emit == st = "done" => PrintT(ToJson([script |-> script, obs |-> <<>>]))
=============================================================================
