----------------------------- MODULE Mon_C12 -----------------------------
(* C12: close() is atomic with respect to other threads' sends and closes.  Same records as Mon_C11.   *)
EXTENDS MonCommon

Halves(tr) == SelectSeq(tr, LAMBDA r : r.k = "half")
WF(tr) == SelectSeq(tr, LAMBDA r : r.k = "wf")
TCalls(tr) == SelectSeq(tr, LAMBDA r : r.k = "tcall")
NotTorn(tr) == LET h == Halves(tr) IN
               \A i \in 1..Len(h) : h[i].part = 2 => (i > 1 /\ h[i - 1].part = 1 /\ h[i - 1].th = h[i].th)
AppSends == {"send_text", "send_binary", "send_ping"}
Verdict(tr) ==
  LET w == WF(tr)
      calls == TCalls(tr)
      closes == { i \in 1..Len(w) : w[i].op = OpClose }
      firstClose == IF closes = {} THEN 0 ELSE CHOOSE i \in closes : \A j \in closes : i <= j
      wires == SelectSeq(tr, LAMBDA r : r.k = "wire")
      OnWire(c) == \E i \in 1..Len(w) : w[i].pl = c.pl /\ w[i].op # OpClose
  IN FirstFailing(<<
    <<"deadlock_or_hang", \A i \in 1..Len(tr) : ~(tr[i].k \in {"deadlock", "hang"})>>,
    <<"write_torn_or_interleaved", NotTorn(tr) /\ Len(wires) = 1 /\ wires[1].whole>>,
    <<"more_than_one_close_frame", Cardinality(closes) <= 1>>,
    <<"data_frame_after_close_frame", firstClose = 0 \/ \A i \in (firstClose + 1)..Len(w) : ~(w[i].op \in {OpCont, OpText, OpBin})>>,
    <<"losing_send_did_not_fail_with_a_websocket_error",
        \A i \in 1..Len(calls) : calls[i].m \in AppSends => (calls[i].res = "ok" \/ calls[i].wserr)>>,
    <<"failed_send_was_written_anyway",
        \A i \in 1..Len(calls) : (calls[i].m \in AppSends /\ calls[i].res # "ok") => ~OnWire(calls[i])>>,
    <<"accepted_send_is_not_on_the_wire",
        \A i \in 1..Len(calls) : (calls[i].m \in AppSends /\ calls[i].res = "ok") => OnWire(calls[i])>>
  >>)
=============================================================================
