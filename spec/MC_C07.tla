------------------------------ MODULE MC_C07 ------------------------------
EXTENDS MCBase, Mon_C07

HttpAll == {Http("ok"), Http("rej"), Http("big")}
HttpOk  == {Http("ok")}
\* frames: text, first fragment, final continuation, ping, pong, close, reserved opcode, partial frame
ItemsQ == {F(1,1,<<97>>), F(2,0,<<1>>), F(0,1,<<2>>), F(9,1,<<7>>), F(8,1,<<3,232>>), F(3,1,<<>>), Part}
ItemsT == ItemsQ \cup {F(10,1,<<>>), F(1,1,<<255>>), F(8,1,<<3,237>>), Masked(F(2,1,<<>>))}
CfgIdle == [poll |-> 5, ping_rate |-> 0, ping_timeout |-> 0, close_timeout |-> 0, auto_pong |-> TRUE]
CfgTimers == [poll |-> 5, ping_rate |-> 5, ping_timeout |-> 5, close_timeout |-> 5, auto_pong |-> TRUE]
CfgPingTimeoutOnly == [poll |-> 5, ping_rate |-> 5, ping_timeout |-> 5, close_timeout |-> 0, auto_pong |-> TRUE]
CfgCloseOnly == [poll |-> 5, ping_rate |-> 0, ping_timeout |-> 0, close_timeout |-> 5, auto_pong |-> TRUE]

\* the design satisfies the property: in every reachable state the observation prefix is admissible,
\* and every complete behaviour gets the verdict "ok"
\* the alphabets as data (the harness draws random scripts from them for trace validation)
EmitAlphabet == pc # "start" \/ PrintT(ToJson([alphabet |-> [items |-> ItemsT, http |-> HttpAll]]))
MonPrefix == PrefixOK(obs)
MonFinal  == pc = "done" => Verdict(obs) = "ok"
=============================================================================
