------------------------------- MODULE Proxy -------------------------------
(* Model of session._connect / _connect_proxy: proxy selection by scheme, the CONNECT exchange (a       *)
(* blocking recv loop until the proxy's reply is complete), TLS wrapping for wss, then the WebSocket    *)
(* upgrade request.  The environment chooses the configuration, the proxy's reply class, how the reply  *)
(* is cut into reads and the socket faults.  obs/script as in Lomond.tla.                               *)
EXTENDS Naturals, Sequences, FiniteSets, TLC, Json

CONSTANTS Targets,      \* [scheme, host, port]
          Mappings,     \* proxy mappings: [http |-> url or "", https |-> url or ""] where url = [scheme, host, port(0=default), user, pass]
          ReplyClasses, \* subset of the classes below
          Cuts          \* how a reply is cut into recv() results: "one", "two", "bytewise"
AllReplyClasses == {"ok200", "ok200_headers", "st407", "st500", "st201", "garbage", "unterminated_eof", "oversize", "oversize_unterminated",
                    "immediate_eof", "recv_error", "recv_boom", "partial_then_error"}
NoProxy == [scheme |-> "", host |-> "", port |-> 0, user |-> "", pass |-> ""]

VARIABLES pc, cfg, obs, script
vars == <<pc, cfg, obs, script>>
Init == /\ pc = "start" /\ obs = <<>> /\ script = <<>>
        /\ cfg \in { [target |-> t, map |-> m] : t \in Targets, m \in Mappings }

Entry == IF cfg.target.scheme = "wss" THEN cfg.map.https ELSE cfg.map.http
UseProxy == Entry # NoProxy
ProxyPort == IF Entry.port # 0 THEN Entry.port ELSE IF Entry.scheme = "https" THEN 443 ELSE 80
Ev(name) == [k |-> "ev", name |-> name]
Conn(host, port, res) == [k |-> "sock", op |-> "connect", host |-> host, port |-> port, res |-> res]

Start == /\ pc = "start" /\ obs' = <<Ev("connecting")>> /\ pc' = IF UseProxy THEN "proxy_connect" ELSE "direct_connect"
         /\ UNCHANGED <<cfg, script>>

\* ---- no proxy for this scheme: connect to the target itself -------------------------------------------
DirectConnect ==
  /\ pc = "direct_connect"
  /\ obs' = obs \o <<Conn(cfg.target.host, cfg.target.port, "ok"), [k |-> "wr", what |-> "request", sockrole |-> "target"],
                      [k |-> "ev", name |-> "connected", proxy |-> "none"]>>
  /\ script' = [net |-> <<"ok">>, writes |-> <<"ok">>, reply |-> "none", cut |-> "one"]
  /\ pc' = "done" /\ UNCHANGED cfg

\* ---- CONNECT exchange ---------------------------------------------------------------------------------
ProxyConnect ==
  /\ pc = "proxy_connect"
  /\ \/ /\ obs' = Append(obs, Conn(Entry.host, ProxyPort, "refused")) \o <<Ev("connect_fail")>>
        /\ script' = [net |-> <<"refused">>, writes |-> <<>>, reply |-> "none", cut |-> "one"]
        /\ pc' = "done"
     \/ /\ obs' = Append(obs, Conn(Entry.host, ProxyPort, "ok"))
        /\ script' = [net |-> <<"ok">>, writes |-> <<>>, reply |-> "none", cut |-> "one"]
        /\ pc' = "send_connect"
  /\ UNCHANGED cfg

SendConnect ==
  /\ pc = "send_connect"
  /\ \/ /\ obs' = obs \o <<[k |-> "wrf"], Ev("connect_fail")>>
        /\ script' = [script EXCEPT !.writes = <<"error">>]
        /\ pc' = "done"
     \/ /\ obs' = Append(obs, [k |-> "wr", what |-> "connect", target |-> cfg.target.host \o ":" \o ToString(cfg.target.port)])
        /\ script' = [script EXCEPT !.writes = <<"ok">>]
        /\ pc' = "recv_reply"
  /\ UNCHANGED cfg

\* the blocking recv loop: the reply arrives in pieces; only a complete 200 reply lets the client go on
RecvReply ==
  /\ pc = "recv_reply"
  /\ \E rc \in ReplyClasses : \E cut \in Cuts :
       /\ IF rc \in {"ok200", "ok200_headers"}
          THEN /\ obs' = obs \o <<[k |-> "rd", pdone |-> TRUE]>>
                           \o (IF cfg.target.scheme = "wss" THEN <<[k |-> "sock", op |-> "wrap", host |-> cfg.target.host]>> ELSE <<>>)
                           \o <<[k |-> "wr", what |-> "request", sockrole |-> "proxy"],
                                [k |-> "ev", name |-> "connected", proxy |-> "proxy"]>>
               /\ script' = [script EXCEPT !.reply = rc, !.cut = cut, !.writes = <<"ok", "ok">>]
          ELSE /\ obs' = Append(obs, Ev("connect_fail"))
               /\ script' = [script EXCEPT !.reply = rc, !.cut = cut]
  /\ pc' = "done" /\ UNCHANGED cfg

Done == pc = "done" /\ UNCHANGED vars
Next == Start \/ DirectConnect \/ ProxyConnect \/ SendConnect \/ RecvReply
Spec == Init /\ [][Next]_vars

\* ---- C19 on the model ---------------------------------------------------------------------------------
RequestPos == { i \in 1..Len(obs) : obs[i].k = "wr" /\ obs[i].what = "request" }
ConnectPos == { i \in 1..Len(obs) : obs[i].k = "wr" /\ obs[i].what = "connect" }
NothingBeforeTunnel ==
  UseProxy => \A i \in RequestPos : \E c \in ConnectPos : \E d \in (c + 1)..(i - 1) : obs[d].k = "rd" /\ obs[d].pdone
ProxyOnlyWhenConfigured == \A i \in 1..Len(obs) : (obs[i].k = "wr" /\ obs[i].what = "connect") => UseProxy
Emit == pc = "done" => PrintT(ToJson([cfg |-> cfg, useproxy |-> UseProxy, proxyport |-> ProxyPort, entry |-> Entry, script |-> script, obs |-> obs]))
=============================================================================
