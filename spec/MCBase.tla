------------------------------ MODULE MCBase ------------------------------
(* Common definitions for the model-checking / scenario-generation instances of Lomond.               *)
EXTENDS Lomond, Json

F(op, fin, pl)     == [t |-> "f", op |-> op, fin |-> fin, rsv1 |-> 0, rsv2 |-> 0, rsv3 |-> 0, mask |-> FALSE, pl |-> PV(pl), ann |-> "len"]
FB(op, fin, n, id) == [t |-> "f", op |-> op, fin |-> fin, rsv1 |-> 0, rsv2 |-> 0, rsv3 |-> 0, mask |-> FALSE, pl |-> PVBlob(n, id), ann |-> "len"]
Rsv(f, a, b, c)    == [f EXCEPT !.rsv1 = a, !.rsv2 = b, !.rsv3 = c]
Masked(f)          == [f EXCEPT !.mask = TRUE]
Huge(f)            == [f EXCEPT !.ann = "huge"]
Http(v)            == [t |-> "http", v |-> v]
Part               == [t |-> "part"]

\* every complete behaviour is printed once, as the scenario (script) and the model's predicted observations
Emit == pc = "done" => PrintT(ToJson([script |-> script, obs |-> obs]))
Depth == TLCGet("level")
=============================================================================
