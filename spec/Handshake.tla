----------------------------- MODULE Handshake -----------------------------
(* RFC 6455 section 4: the opening handshake as seen by the client.  A reply is described abstractly   *)
(* (the concretiser produces the equivalent spellings RFC 7230 allows); the digest is an uninterpreted  *)
(* injective function of the key, so "accept" is one of a few classes relative to the right digest.     *)
EXTENDS Naturals, Sequences, FiniteSets, TLC

StatusClasses  == {"101", "101nr", "200", "400", "garbage"}        \* 101nr: status line without a reason phrase
UpgradeClasses == {"websocket", "WebSocket", "other", "missing"}
AcceptClasses  == {"exact", "missing", "other_key", "case_swapped", "lower_cased", "upper_cased", "truncated", "extended", "empty"}
SizeClasses    == {"normal", "exact16k", "big_term", "big_unterm"} \* header block incl. terminator: <= 16 KiB / exactly / beyond

\* what the client must do with a completely received reply
HVerdict(r) ==
  IF r.size \in {"big_term", "big_unterm"} THEN "protocol_error"
  ELSE IF r.status \in {"101", "101nr"} /\ r.upgrade \in {"websocket", "WebSocket"} /\ r.accept = "exact" THEN "ready"
  ELSE "rejected"

\* URL shapes: [scheme, host, port (0 = not given), path ("" = none), query ("" = none)]
DefaultPort(u) == IF u.scheme = "wss" THEN 443 ELSE 80
PortOf(u) == IF u.port = 0 THEN DefaultPort(u) ELSE u.port
UrlString(u) == u.scheme \o "://" \o u.host \o (IF u.port = 0 THEN "" ELSE ":" \o ToString(u.port)) \o u.path
                \o (IF u.query = "" THEN "" ELSE "?" \o u.query)
HostHeader(u) == u.host \o ":" \o ToString(PortOf(u))
Target(u) == (IF u.path = "" THEN "/" ELSE u.path) \o (IF u.query = "" THEN "" ELSE "?" \o u.query)
=============================================================================
