------------------------------ MODULE Deflate ------------------------------
(* permessage-deflate (RFC 7692) at block granularity: an LZ77 compressor replaces a block by a        *)
(* back-reference when the same block lies within its window; the inflater resolves a reference only    *)
(* within its own window.  Contexts are carried across messages unless *_no_context_takeover.           *)
(* Two directions: client -> server (client compressor cz, server inflater si) and server -> client.    *)
(* Checked by TLC: with the negotiated parameters honoured on both sides every message round-trips;     *)
(* the histories explored are printed and replayed against the real code with a real zlib peer.         *)
EXTENDS Naturals, Sequences, FiniteSets, TLC, Json

CONSTANTS Blocks,        \* block alphabet, e.g. {"a", "b"}; "f" is a filler block that is never repeated
          MaxMsgs,       \* messages per behaviour
          MaxLen,        \* blocks per message
          WC, WS,        \* negotiated windows (in blocks) client->server and server->client
          CNT, SNT,      \* client_no_context_takeover / server_no_context_takeover
          ClientWindow   \* the window the client's compressor really uses (= WC when it honours the negotiation)

VARIABLES cz, si, sz, ci,   \* contexts: sequences of blocks seen since the last reset
          hist, ok
vars == <<cz, si, sz, ci, hist, ok>>
Init == cz = <<>> /\ si = <<>> /\ sz = <<>> /\ ci = <<>> /\ hist = <<>> /\ ok = TRUE

\* distance (in blocks) back to the most recent occurrence of b in ctx, 0 if none
Dist(ctx, b) == IF \E i \in 1..Len(ctx) : ctx[i] = b
                THEN Len(ctx) + 1 - (CHOOSE i \in 1..Len(ctx) : ctx[i] = b /\ \A j \in (i + 1)..Len(ctx) : ctx[j] # b)
                ELSE 0
RECURSIVE Comp(_, _, _)
Comp(ctx, msg, w) == IF msg = <<>> THEN <<>>
                     ELSE LET b == Head(msg)  d == Dist(ctx, b) IN
                          <<IF b # "f" /\ d # 0 /\ d <= w THEN [ref |-> d] ELSE [lit |-> b]>> \o Comp(Append(ctx, b), Tail(msg), w)
RECURSIVE Infl(_, _, _)
\* returns the blocks, or <<"FAIL">> as soon as a reference reaches beyond the window or the context
Infl(ctx, z, w) == IF z = <<>> THEN <<>>
                   ELSE LET t == Head(z) IN
                        IF "lit" \in DOMAIN t THEN LET r == Infl(Append(ctx, t.lit), Tail(z), w) IN
                                                   IF r = <<"FAIL">> THEN r ELSE <<t.lit>> \o r
                        ELSE IF t.ref > w \/ t.ref > Len(ctx) THEN <<"FAIL">>
                        ELSE LET b == ctx[Len(ctx) + 1 - t.ref]  r == Infl(Append(ctx, b), Tail(z), w) IN
                             IF r = <<"FAIL">> THEN r ELSE <<b>> \o r

Msgs == UNION { [1..n -> Blocks \cup {"f"}] : n \in 0..MaxLen }
ClientSends ==
  /\ Len(hist) < MaxMsgs
  /\ \E m \in Msgs : \E z \in BOOLEAN :
       LET wire == Comp(cz, m, ClientWindow)
           got == Infl(si, wire, WC)
       IN /\ hist' = Append(hist, [dir |-> "c2s", blocks |-> m, z |-> z])
          /\ IF z THEN /\ cz' = IF CNT THEN <<>> ELSE cz \o m
                       /\ si' = IF CNT THEN <<>> ELSE si \o m
                       /\ ok' = (ok /\ got = m)
             ELSE UNCHANGED <<cz, si, ok>>
  /\ UNCHANGED <<sz, ci>>
ServerSends ==
  /\ Len(hist) < MaxMsgs
  /\ \E m \in Msgs : \E z \in BOOLEAN : \E nf \in 1..3 :
       LET wire == Comp(sz, m, WS)
           got == Infl(ci, wire, WS)
       IN /\ hist' = Append(hist, [dir |-> "s2c", blocks |-> m, z |-> z, frags |-> nf])
          /\ IF z THEN /\ sz' = IF SNT THEN <<>> ELSE sz \o m
                       /\ ci' = IF SNT THEN <<>> ELSE ci \o m
                       /\ ok' = (ok /\ got = m)
             ELSE UNCHANGED <<sz, ci, ok>>
  /\ UNCHANGED <<cz, si>>
Next == ClientSends \/ ServerSends
Spec == Init /\ [][Next]_vars

Lossless == ok
ContextsInSync == cz = si /\ sz = ci
Emit == Len(hist) = MaxMsgs => PrintT(ToJson([hist |-> hist]))
=============================================================================
