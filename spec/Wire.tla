------------------------------ MODULE Wire ------------------------------
(* RFC 6455 data-level semantics: frame classification, close payloads, close codes, payload values,  *)
(* header encoding/decoding (length forms), masking.                                                   *)
EXTENDS Naturals, Integers, Sequences, FiniteSets, Utf8, TLC

OpCont == 0  OpText == 1  OpBin == 2  OpClose == 8  OpPing == 9  OpPong == 10
ReservedOps == {3, 4, 5, 6, 7, 11, 12, 13, 14, 15}
IsControl(op) == op >= 8
IsData(op) == op \in {0, 1, 2}

\* ---- payload values -------------------------------------------------------------------------------
\* A payload value is [n |-> <<hi, lo>>, s |-> bytes (when small), h |-> digest (when large or symbolic)].
PV(bytes)       == [n |-> <<0, Len(bytes)>>, s |-> bytes, h |-> ""]
PVBlob(len, id) == [n |-> <<len \div 65536, len % 65536>>, s |-> <<>>, h |-> "blob" \o ToString(id)]
PVLen(v)        == v.n[1] * 65536 + v.n[2]
PVEmpty         == PV(<<>>)
PVIsSmall(v)    == v.h = ""
\* concatenation of payload values is only defined on small ones (the monitors use digests otherwise)
PVCat(a, b)     == PV(a.s \o b.s)

\* ---- frames ---------------------------------------------------------------------------------------
\* A frame (as sent by the server) is a record with fields
\*   op, fin, rsv1, rsv2, rsv3 \in 0..1, mask \in BOOLEAN, pl (payload value), ann \in {"len","huge"}
\* `ann = "huge"` stands for an announced 64-bit length >= 2^63.
\* The RFC 6455 frame-level violations, given whether permessage-deflate was negotiated.
FrameViolation(f, deflate) ==
  IF f.ann = "huge"                                     THEN "too_large"
  ELSE IF IsControl(f.op) /\ PVLen(f.pl) > 125          THEN "control_too_long"
  ELSE IF f.rsv2 = 1 \/ f.rsv3 = 1                      THEN "reserved_bits"
  ELSE IF f.rsv1 = 1 /\ ~deflate                        THEN "reserved_bits"
  ELSE IF f.op \in ReservedOps                          THEN "reserved_opcode"
  ELSE IF IsControl(f.op) /\ f.fin = 0                  THEN "fragmented_control"
  ELSE IF f.mask                                        THEN "masked"
  ELSE "ok"

\* ---- close payloads -------------------------------------------------------------------------------
\* close codes a receiver MUST treat as a protocol error / MUST accept / the RFC leaves open
CloseCodeClass(code) ==
  IF code \in 0..999 \/ code \in {1004, 1005, 1006, 1015} THEN "must_reject"
  ELSE IF code \in {1000, 1001, 1002, 1003, 1007, 1008, 1009, 1010, 1011} \/ code \in 3000..4999 THEN "must_accept"
  ELSE "unspecified"

\* result of parsing a close payload (small payload value): [ok, code (-1 = none), reason (bytes), why]
ParseClose(v) ==
  LET b == v.s n == PVLen(v) IN
  IF n = 0 THEN [ok |-> TRUE, code |-> -1, reason |-> <<>>, why |-> "ok"]
  ELSE IF n = 1 THEN [ok |-> FALSE, code |-> -1, reason |-> <<>>, why |-> "close_one_byte"]
  ELSE LET code == b[1] * 256 + b[2]
           reason == SubSeq(b, 3, Len(b)) IN
       IF ~WellFormed(reason) THEN [ok |-> FALSE, code |-> code, reason |-> reason, why |-> "close_reason_utf8"]
       ELSE [ok |-> TRUE, code |-> code, reason |-> reason, why |-> "ok"]

ClosePayload(code, reason) == IF code = -1 THEN <<>> ELSE <<code \div 256, code % 256>> \o reason

\* ---- header encoding (client side) ----------------------------------------------------------------
\* length form a client must use for a payload of n bytes
MinimalForm(n) == IF n < 126 THEN 7 ELSE IF n < 65536 THEN 16 ELSE 64
\* second header byte / extension for a length class
LenByte(n) == IF n < 126 THEN n ELSE IF n < 65536 THEN 126 ELSE 127
\* the 7-bit field and form decoded from the second header byte
FormOf(b2) == LET l == b2 % 128 IN IF l < 126 THEN 7 ELSE IF l = 126 THEN 16 ELSE 64
DecodeHdr(b1, b2) == [fin |-> b1 \div 128, rsv1 |-> (b1 \div 64) % 2, rsv2 |-> (b1 \div 32) % 2, rsv3 |-> (b1 \div 16) % 2,
                      op |-> b1 % 16, mask |-> b2 \div 128 = 1, len7 |-> b2 % 128, form |-> FormOf(b2)]
EncodeB1(fin, rsv1, rsv2, rsv3, op) == fin * 128 + rsv1 * 64 + rsv2 * 32 + rsv3 * 16 + op

\* ---- masking --------------------------------------------------------------------------------------
Xor8(a, b) ==    \* bitwise xor of two bytes
  LET RECURSIVE X(_, _, _)
      X(x, y, k) == IF k = 0 THEN 0 ELSE (((x % 2) + (y % 2)) % 2) + 2 * X(x \div 2, y \div 2, k - 1)
  IN X(a, b, 8)
Mask(key, payload) == [i \in 1..Len(payload) |-> Xor8(payload[i], key[((i - 1) % 4) + 1])]
=============================================================================
