------------------------------- MODULE Reasm -------------------------------
(* Reference semantics of a server frame sequence (RFC 6455 sections 5.4, 5.5, 5.6, 7.4, 8.1):         *)
(* which messages it contains, in completion order, and which frame - if any - is the first protocol   *)
(* violation.  Frames are `srv` records: op, fin, rsv1..3, mask, pl (payload value), acc (payload of   *)
(* the data message so far, by plain concatenation), ann.                                              *)
EXTENDS Naturals, Integers, Sequences, FiniteSets, TLC, Wire

Res(msgs, viol, why, open) == [msgs |-> msgs, viol |-> viol, why |-> why, open |-> open]

RECURSIVE RefFrom(_, _, _, _, _, _)
RefFrom(fs, i, open, z, msgs, deflate) ==
  IF i > Len(fs) THEN Res(msgs, 0, "none", open)
  ELSE
  LET f == fs[i]
      v == FrameViolation(f, deflate)
  IN
  IF v # "ok" THEN Res(msgs, i, v, open)
  ELSE IF IsControl(f.op) THEN
    IF f.op = OpClose THEN
      LET c == ParseClose(f.pl) IN
      IF ~c.ok THEN Res(msgs, i, c.why, open)
      ELSE IF c.code # -1 /\ CloseCodeClass(c.code) = "must_reject" THEN Res(msgs, i, "close_code", open)
      ELSE RefFrom(fs, i + 1, open, z,
                   Append(msgs, [op |-> OpClose, pl |-> f.pl, code |-> c.code, reason |-> c.reason, at |-> i, z |-> FALSE,
                                 unspec |-> (c.code # -1 /\ CloseCodeClass(c.code) = "unspecified")]), deflate)
    ELSE RefFrom(fs, i + 1, open, z, Append(msgs, [op |-> f.op, pl |-> f.pl, at |-> i, z |-> FALSE]), deflate)
  ELSE IF f.op = OpCont /\ open = "none" THEN Res(msgs, i, "nothing_to_continue", open)
  ELSE IF f.op # OpCont /\ open # "none" THEN Res(msgs, i, "expected_continuation", open)
  ELSE
    LET kind == IF f.op = OpCont THEN open ELSE IF f.op = OpText THEN "text" ELSE "bin"
        zz   == IF f.op = OpCont THEN z ELSE f.rsv1 = 1
        \* a compressed message written by the harness' RFC 7692 peer: `orig` is the application payload it compressed
        zo   == zz /\ "zorig" \in DOMAIN f /\ f.zorig
        mpl  == IF zo THEN f.orig ELSE f.acc
        textbad == /\ kind = "text"
                   /\ IF zz THEN zo /\ f.fin = 1 /\ PVIsSmall(f.orig) /\ ~WellFormed(f.orig.s)     \* known once inflated
                      \* (on a connection with permessage-deflate the client judges every text message when it is complete)
                      ELSE PVIsSmall(f.acc) /\ (IF f.fin = 1 THEN ~WellFormed(f.acc.s) ELSE ~deflate /\ FirstDeadByte(f.acc.s) # 0)
    IN IF textbad THEN Res(msgs, i, "invalid_utf8", open)
       ELSE IF f.fin = 1
       THEN RefFrom(fs, i + 1, "none", FALSE,
                    Append(msgs, [op |-> IF kind = "text" THEN OpText ELSE OpBin, pl |-> mpl, at |-> i, z |-> zz /\ ~zo]), deflate)
       ELSE RefFrom(fs, i + 1, kind, zz, msgs, deflate)

\* [msgs, viol (index of the first violating frame, 0 if none), why, open]
Ref(frames, deflate) == RefFrom(frames, 1, "none", FALSE, <<>>, deflate)
RefMessages(frames) == Ref(frames, FALSE).msgs
=============================================================================
