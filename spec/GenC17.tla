------------------------------ MODULE GenC17 ------------------------------
(* C17: reconnect chains on the same WebSocket object.  Every pair (how the previous connection ended,  *)
(* what the next connection does) is one case; the harness runs the pair on one object and the second   *)
(* history on a fresh object, and Mon_C17 demands identical observables.                                *)
EXTENDS Naturals, Sequences, FiniteSets, TLC, Json, Wire
F(op, fin, pl) == [t |-> "f", op |-> op, fin |-> fin, rsv1 |-> 0, rsv2 |-> 0, rsv3 |-> 0, mask |-> FALSE, pl |-> PV(pl), ann |-> "len", z |-> FALSE]
Z(f) == [f EXCEPT !.rsv1 = 1, !.z = TRUE]
Ok == [t |-> "http", v |-> "ok"]
OkZ == [t |-> "http", v |-> "ok", ext |-> "permessage-deflate"]
Rej == [t |-> "http", v |-> "rej"]
D(n) == [kind |-> "data", dt |-> 0, items |-> n]
B(n) == [kind |-> "data", dt |-> 0, bytes |-> n]
Eof == [kind |-> "eof", dt |-> 0]
T5 == [kind |-> "timeout", dt |-> 5]
H(name, net, stream, steps, react) == [name |-> name, net |-> net, stream |-> stream, steps |-> steps, react |-> react]
R(ev, call) == [ev |-> ev, call |-> call]
Hello == <<104, 101, 108, 108, 111>>

Endings == {
  H("mid_http_header",      <<"ok">>, <<Ok>>, <<B(20), Eof>>, <<>>),
  H("mid_frame_header",     <<"ok">>, <<Ok, F(1, 1, <<97>>)>>, <<D(1), B(1), Eof>>, <<>>),
  H("mid_payload",          <<"ok">>, <<Ok, F(1, 1, Hello)>>, <<D(1), B(4), Eof>>, <<>>),
  H("mid_fragmented_text",  <<"ok">>, <<Ok, F(1, 0, <<97, 98>>)>>, <<D(2), Eof>>, <<>>),
  H("mid_fragmented_binary",<<"ok">>, <<Ok, F(2, 0, <<1, 2>>), F(9, 1, <<>>)>>, <<D(3), Eof>>, <<>>),
  H("mid_code_point",       <<"ok">>, <<Ok, F(1, 0, <<226, 130>>)>>, <<D(2), Eof>>, <<>>),
  H("mid_code_point_in_frame", <<"ok">>, <<Ok, F(1, 1, <<97, 226, 130, 172>>)>>, <<D(1), B(4), Eof>>, <<>>),
  H("mid_compression_context", <<"ok">>, <<OkZ, Z(F(1, 1, <<104, 105, 104, 105, 104, 105, 104, 105>>)), Z(F(2, 0, <<104, 105, 104, 105>>))>>, <<D(3), Eof>>, <<>>),
  H("compressed_send_then_drop", <<"ok">>, <<OkZ, Z(F(1, 1, <<104, 105, 104, 105, 104, 105>>))>>, <<D(2), Eof>>, <<R("text#0", "send")>>),
  H("while_closing",        <<"ok">>, <<Ok, F(1, 1, <<97>>)>>, <<D(2), Eof>>, <<R("text#0", "close")>>),
  H("closed_by_client",     <<"ok">>, <<Ok, F(8, 1, <<3, 232>>)>>, <<D(1), D(1), Eof>>, <<R("ready#0", "close")>>),
  H("closed_by_server",     <<"ok">>, <<Ok, F(8, 1, <<3, 232>>)>>, <<D(2), Eof>>, <<>>),
  H("truncated_close_reason", <<"ok">>, <<Ok, F(8, 1, <<3, 232, 226, 130>>)>>, <<D(2), Eof>>, <<>>),
  H("rejected",             <<"ok">>, <<Rej>>, <<D(1), Eof>>, <<>>),
  H("connect_failure",      <<"refused">>, <<>>, <<>>, <<>>),
  \* the application calls close() / send at the terminal event of the previous attempt (nothing was ever sent, or the socket is gone)
  H("connect_failure_then_close", <<"refused">>, <<>>, <<>>, <<R("connect_fail#0", "close")>>),
  H("rejected_then_close",  <<"ok">>, <<Rej>>, <<D(1), Eof>>, <<R("rejected#0", "close")>>),
  H("dropped_then_close_and_send", <<"ok">>, <<Ok, F(1, 1, <<97>>)>>, <<D(2), Eof>>, <<R("disconnected#0", "close"), R("disconnected#0", "send")>>),
  H("protocol_error",       <<"ok">>, <<Ok, F(3, 1, <<>>)>>, <<D(2), Eof>>, <<>>),
  H("invalid_utf8",         <<"ok">>, <<Ok, F(1, 0, <<97>>), F(0, 0, <<255>>)>>, <<D(3), Eof>>, <<>>),
  H("abandoned_break",      <<"ok">>, <<Ok, F(1, 1, <<97>>), F(1, 0, <<226>>)>>, <<D(3), Eof>>, <<R("text#0", "abandon:break")>>),
  H("abandoned_raise",      <<"ok">>, <<Ok, F(1, 0, <<226>>), F(9, 1, <<>>)>>, <<D(3), Eof>>, <<R("ping#0", "abandon:raise")>>),
  H("abandoned_close",      <<"ok">>, <<Ok, F(2, 0, <<1>>)>>, <<D(2), Eof>>, <<R("poll#0", "abandon:close")>>),
  \* abandoned at a housekeeping Poll (after an idle wait), the iterator kept alive and finalised while the next connection runs
  H("abandoned_kept_alive", <<"ok">>, <<Ok>>, <<D(1), [kind |-> "timeout", dt |-> 5], Eof>>, <<R("poll#1", "abandon:keep")>>),
  H("abandoned_with",       <<"ok">>, <<OkZ, Z(F(1, 1, <<104, 105, 104, 105, 104, 105>>))>>, <<D(2), Eof>>, <<R("text#0", "abandon:with")>>) }

Continuations == {
  H("multibyte_text",       <<"ok">>, <<Ok, F(1, 1, <<226, 130, 172>>), F(1, 1, <<172 - 75>>)>>, <<D(3), Eof>>, <<>>),
  H("continuation_first",   <<"ok">>, <<Ok, F(0, 1, <<172>>)>>, <<D(2), Eof>>, <<>>),
  H("fragmented_with_ping", <<"ok">>, <<Ok, F(1, 0, <<97>>), F(9, 1, <<7>>), F(0, 1, <<98>>)>>, <<D(4), Eof>>, <<>>),
  H("binary_then_server_close", <<"ok">>, <<Ok, F(2, 1, <<0, 255>>), F(8, 1, <<3, 232>>)>>, <<D(3), Eof>>, <<>>),
  H("compressed_message",   <<"ok">>, <<OkZ, Z(F(1, 1, <<104, 105, 104, 105, 104, 105, 104, 105>>)), Z(F(1, 1, <<104, 105, 104, 105>>))>>, <<D(3), Eof>>, <<R("text#0", "send")>>),
  H("send_then_close",      <<"ok">>, <<Ok, F(8, 1, <<3, 232>>)>>, <<D(1), D(1), Eof>>, <<R("ready#0", "send"), R("poll#0", "close")>>),
  H("server_close_with_reason", <<"ok">>, <<Ok, F(1, 1, <<97>>), F(8, 1, <<3, 232, 98, 121, 101>>)>>, <<D(3), Eof>>, <<>>),
  H("rejected",             <<"ok">>, <<Rej>>, <<D(1), Eof>>, <<>>),
  \* (time passes: 40 s of silence - longer than the default close time-out - before the server drops the connection)
  H("idle_for_a_while",     <<"ok">>, <<Ok>>, <<D(1), T5, T5, T5, T5, T5, T5, T5, T5, Eof>>, <<>>),
  H("silent_drop",          <<"ok">>, <<Ok>>, <<D(1), Eof>>, <<R("ready#0", "send")>>) }

VARIABLE st
Init == st = "init"
Next == st = "init" /\ st' = "done"
Spec == Init /\ [][Next]_st
EmitCases == st # "done" \/ \A e \in Endings : \A c \in Continuations : PrintT(ToJson([first |-> e, second |-> c]))
=============================================================================
