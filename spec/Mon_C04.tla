----------------------------- MODULE Mon_C04 -----------------------------
(* C04: protocol violations are detected, reported once, and fail the connection.                      *)
EXTENDS MonCommon

\* Once the server has sent a Close frame the stream is over as far as RFC 6455 is concerned: what a
\* client does with frames that follow it is not demanded by C04 (either behaviour is accepted).
Applicable(tr) == Ref(UpToClose(DeliveredFrames(tr)), CfgOf(tr).compress).viol # 0

Verdict(tr) ==
  LET ref  == Ref(UpToClose(DeliveredFrames(tr)), CfgOf(tr).compress)
      msgs == ref.msgs
      perr == Pos(tr, LAMBDA r : r.k = "ev" /\ r.name = "protocol_error")
      before == IF perr = 0 THEN tr ELSE SubSeq(tr, 1, perr - 1)
      after  == IF perr = 0 THEN <<>> ELSE SubSeq(tr, perr + 1, Len(tr))
      evsB == MessageEvents(before)
      evsAll == Events(tr)
      \* frames written by the library on its own: those an application call wrote (recorded right before the call record,
      \* e.g. a send made by the handler of the ProtocolError event) are the application's business, not C04's
      n == Len(tr)
      appPos == UNION { (c - tr[c].nwr - tr[c].nwrf)..(c - 1) : c \in { i \in 1..n : tr[i].k = "call" } }
      fa == SelectSeq([i \in 1..Len(after) |-> [r |-> after[i], p |-> perr + i]],
                      LAMBDA e : e.r.k = "wr" /\ e.r.what = "frame" /\ e.p \notin appPos)
  IN
  IF ref.viol = 0 THEN "ok"            \* no violation delivered: outside C04
  ELSE FirstFailing(<<
    <<"no_protocol_error_event", perr # 0>>,
    <<"more_than_one_protocol_error", Count(tr, LAMBDA r : r.k = "ev" /\ r.name = "protocol_error") <= 1>>,
    <<"prefix_messages_not_delivered_normally",
        Len(evsB) = Len(msgs) /\ \A i \in 1..Len(msgs) : msgs[i].z \/ EventMatches(evsB[i], msgs[i])>>,
    <<"message_delivered_after_violation", MessageEvents(after) = <<>> >>,
    <<"not_ended_by_nongraceful_disconnected",
        evsAll # <<>> /\ Last(evsAll).name = "disconnected" /\ ~Last(evsAll).graceful>>,
    <<"wrote_more_than_a_close_frame_after_violation",
        Len(fa) <= 1 /\ \A i \in 1..Len(fa) : fa[i].r.op = OpClose>>
  >>)
PrefixOK(tr) == TRUE
=============================================================================
