----------------------------- MODULE Mon_C11 -----------------------------
(* C11: concurrent senders never corrupt the wire.  Records of one scheduled execution: `half` (one of  *)
(* the two steps of a sendall, per thread), `wf` (frames decoded from the concatenated bytes by the      *)
(* independent decoder; compressed payloads inflated by a context-takeover peer in wire order), `wire`   *)
(* (did the bytes parse as whole frames), `tcall` (each thread's calls in program order with results).  *)
EXTENDS MonCommon

Halves(tr) == SelectSeq(tr, LAMBDA r : r.k = "half")
WF(tr) == SelectSeq(tr, LAMBDA r : r.k = "wf")
\* (loop_inflate is the loop thread reading: it writes nothing)
TCalls(tr) == SelectSeq(tr, LAMBDA r : r.k = "tcall" /\ r.m # "loop_inflate")
NotTorn(tr) == LET h == Halves(tr) IN
               /\ \A i \in 1..Len(h) : h[i].part = 2 => (i > 1 /\ h[i - 1].part = 1 /\ h[i - 1].th = h[i].th)
               /\ \A i \in 1..Len(h) : h[i].part = 1 => (i < Len(h) /\ h[i + 1].part = 2 /\ h[i + 1].th = h[i].th)
\* positions in the wire of the frame carrying call c's payload
PosOf(w, c) == { i \in 1..Len(w) : w[i].pl = c.pl }
Verdict(tr) ==
  LET w == WF(tr)
      calls == TCalls(tr)
      okc == SelectSeq(calls, LAMBDA c : c.res = "ok")
      wires == SelectSeq(tr, LAMBDA r : r.k = "wire")
  IN FirstFailing(<<
    <<"deadlock_or_hang", \A i \in 1..Len(tr) : ~(tr[i].k \in {"deadlock", "hang"})>>,
    <<"write_torn_or_interleaved", NotTorn(tr)>>,
    <<"bytes_on_the_wire_are_not_whole_frames", Len(wires) = 1 /\ wires[1].whole>>,
    <<"peer_cannot_decode_a_message_in_wire_order", \A i \in 1..Len(w) : w[i].pl.h # "INFLATE-FAILED">>,
    <<"wire_does_not_contain_exactly_the_messages_sent",
        Len(w) = Len(okc) /\ \A i \in 1..Len(okc) : Cardinality(PosOf(w, okc[i])) = 1>>,
    <<"a_threads_messages_out_of_call_order",
        \A i, j \in 1..Len(okc) : (okc[i].th = okc[j].th /\ okc[i].seq < okc[j].seq /\ PosOf(w, okc[i]) # {} /\ PosOf(w, okc[j]) # {}) =>
            (CHOOSE p \in PosOf(w, okc[i]) : TRUE) < (CHOOSE p \in PosOf(w, okc[j]) : TRUE)>>,
    <<"send_failed_without_cause", \A i \in 1..Len(calls) : calls[i].res = "ok">>
  >>)
=============================================================================
