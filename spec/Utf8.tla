------------------------------ MODULE Utf8 ------------------------------
(* RFC 3629 / Unicode Table 3-7 as data; a declarative well-formedness predicate; the incremental     *)
(* automaton whose states are "the byte ranges still required"; fail-fast position; decoding.         *)
EXTENDS Naturals, Sequences, FiniteSets

\* Table 3-7 "Well-Formed UTF-8 Byte Sequences": each row is a tuple of byte ranges.
WellFormedTable ==
  { << 0..127 >>,
    << 194..223, 128..191 >>,
    << {224},    160..191, 128..191 >>,
    << 225..236, 128..191, 128..191 >>,
    << {237},    128..159, 128..191 >>,
    << 238..239, 128..191, 128..191 >>,
    << {240},    144..191, 128..191, 128..191 >>,
    << 241..243, 128..191, 128..191, 128..191 >>,
    << {244},    128..143, 128..191, 128..191 >> }

Matches(row, seq, from) ==          \* seq[from .. from+Len(row)-1] matches the row
  /\ from + Len(row) - 1 <= Len(seq)
  /\ \A i \in 1..Len(row) : seq[from + i - 1] \in row[i]

\* Declarative: the sequence can be cut into pieces each of which matches a row of the table.
RECURSIVE WFFrom(_, _)
WFFrom(seq, from) ==
  IF from > Len(seq) THEN TRUE
  ELSE \E row \in WellFormedTable : Matches(row, seq, from) /\ WFFrom(seq, from + Len(row))
WellFormed(seq) == WFFrom(seq, 1)

\* Incremental automaton.  A state is the tuple of ranges still required to finish the current code point
\* (<<>> between code points); << {} >> is the dead state.
U8Start == <<>>
U8Dead  == << {} >>       \* a requirement no byte can meet
U8Step(s, b) ==
  IF s = U8Dead THEN U8Dead
  ELSE IF s = <<>> THEN
         LET rows == { r \in WellFormedTable : b \in r[1] } IN
         IF rows = {} THEN U8Dead ELSE Tail(CHOOSE r \in rows : TRUE)
       ELSE IF b \in Head(s) THEN Tail(s) ELSE U8Dead

RECURSIVE U8RunFrom(_, _, _)
U8RunFrom(s, seq, i) == IF i > Len(seq) THEN s ELSE U8RunFrom(U8Step(s, seq[i]), seq, i + 1)
U8Run(s, seq) == U8RunFrom(s, seq, 1)

U8Accepts(seq) == U8Run(U8Start, seq) = <<>>
U8Rejects(seq) == U8Run(U8Start, seq) = U8Dead

\* Index of the first byte after which no continuation can make the text well-formed (0 if none).
RECURSIVE FirstDeadFrom(_, _, _)
FirstDeadFrom(s, seq, i) ==
  IF i > Len(seq) THEN 0
  ELSE LET s2 == U8Step(s, seq[i]) IN IF s2 = U8Dead THEN i ELSE FirstDeadFrom(s2, seq, i + 1)
FirstDeadByte(seq) == FirstDeadFrom(U8Start, seq, 1)

\* Decoding of a well-formed sequence into code points.
LeadLen(b) == IF b < 128 THEN 1 ELSE IF b < 224 THEN 2 ELSE IF b < 240 THEN 3 ELSE 4
CodePointAt(seq, i) ==
  LET b == seq[i] n == LeadLen(b) IN
  IF n = 1 THEN b
  ELSE IF n = 2 THEN (b - 192) * 64 + (seq[i+1] - 128)
  ELSE IF n = 3 THEN (b - 224) * 4096 + (seq[i+1] - 128) * 64 + (seq[i+2] - 128)
  ELSE (b - 240) * 262144 + (seq[i+1] - 128) * 4096 + (seq[i+2] - 128) * 64 + (seq[i+3] - 128)
RECURSIVE DecodeFrom(_, _)
DecodeFrom(seq, i) == IF i > Len(seq) THEN <<>> ELSE <<CodePointAt(seq, i) >> \o DecodeFrom(seq, i + LeadLen(seq[i]))
Decode(seq) == DecodeFrom(seq, 1)

\* Encoding of a code point (scalar value), used to check Decode is its inverse.
Encode(cp) ==
  IF cp < 128 THEN <<cp >>
  ELSE IF cp < 2048 THEN <<192 + cp \div 64, 128 + (cp % 64) >>
  ELSE IF cp < 65536 THEN <<224 + cp \div 4096, 128 + ((cp \div 64) % 64), 128 + (cp % 64) >>
  ELSE <<240 + cp \div 262144, 128 + ((cp \div 4096) % 64), 128 + ((cp \div 64) % 64), 128 + (cp % 64) >>
IsScalar(cp) == cp \in 0..1114111 /\ cp \notin 55296..57343
=============================================================================
