------------------------------ MODULE MC_Sess ------------------------------
(* Alphabets and configurations for the properties decided on the session model: C01, C04, C08, C09,   *)
(* C13, C14.  The monitor is bound by the generated wrapper (MonPrefix/MonFinal).                      *)
EXTENDS MCBase

HttpOk  == {Http("ok")}
HttpAll == {Http("ok"), Http("rej"), Http("big")}
CfgPlain == [poll |-> 5, ping_rate |-> 0, ping_timeout |-> 0, close_timeout |-> 0, auto_pong |-> TRUE]
CfgNoPong == [poll |-> 5, ping_rate |-> 0, ping_timeout |-> 0, close_timeout |-> 0, auto_pong |-> FALSE]
CfgTimers == [poll |-> 5, ping_rate |-> 5, ping_timeout |-> 5, close_timeout |-> 5, auto_pong |-> TRUE]
CfgPing == [poll |-> 5, ping_rate |-> 5, ping_timeout |-> 0, close_timeout |-> 0, auto_pong |-> TRUE]

\* ---- C01: conforming server: data frames with empty / ASCII / split multi-byte payloads, controls ----
Euro1 == <<226, 130>>     \* first two bytes of U+20AC
Euro2 == <<172>>          \* its last byte
C01Data == { F(op, fin, pl) : op \in {0, 1, 2}, fin \in {0, 1}, pl \in {<<>>, <<97>>, Euro1, Euro2} }
\* (Bom: a text that starts with U+FEFF - it is a character like any other, not a signature to be stripped)
Bom == <<239, 187, 191, 97>>
C01Ctl  == { F(9, 1, <<>>), F(9, 1, <<1>>), F(10, 1, <<2>>), F(8, 1, <<3, 232, 114>>), F(8, 1, <<>>), F(1, 1, Bom) }
C01Items == C01Data \cup C01Ctl
C01ItemsSmall == { F(op, fin, pl) : op \in {0, 1, 2}, fin \in {0, 1}, pl \in {<<>>, <<97>>} } \cup { F(9, 1, <<1>>), F(8, 1, <<3, 232>>) }

\* ---- C04: one violation of each class among valid frames -------------------------------------------
C04Valid == { F(1, 1, <<97>>), F(2, 0, <<1>>), F(0, 1, <<2>>), F(9, 1, <<7>>) }
C04Bad == { F(3, 1, <<>>), F(11, 1, <<>>), F(7, 0, <<1>>), F(15, 1, <<>>),                     \* reserved opcodes
            Rsv(F(1, 1, <<97>>), 1, 0, 0), Rsv(F(2, 1, <<>>), 0, 1, 0), Rsv(F(9, 1, <<>>), 0, 0, 1), \* reserved bits
            F(9, 0, <<>>), F(8, 0, <<3, 232>>), F(10, 0, <<1>>),                                 \* fragmented control
            FB(9, 1, 126, 1), FB(10, 1, 200, 2), FB(8, 1, 126, 3), FB(9, 1, 65536, 4),           \* control > 125
            Masked(F(1, 1, <<97>>)), Masked(F(9, 1, <<>>)),                                      \* masked
            F(0, 1, <<1>>), F(0, 0, <<>>),                                                        \* (bad when nothing is open)
            F(1, 1, <<98>>), F(2, 1, <<>>),                                                       \* (bad when a message is open)
            Huge(F(2, 1, <<>>)), Huge(F(1, 0, <<>>)),                                            \* length >= 2^63
            F(8, 1, <<3>>),                                                                       \* 1-byte close payload
            F(8, 1, <<0, 0>>), F(8, 1, <<3, 231>>), F(8, 1, <<3, 236>>), F(8, 1, <<3, 237>>), F(8, 1, <<3, 238>>), F(8, 1, <<3, 247>>), \* 0, 999, 1004-1006, 1015
            F(1, 1, <<255>>), F(1, 1, <<97, 192, 128>>), F(1, 1, <<237, 160, 128>>), F(1, 1, <<244, 144, 128, 128>>), F(1, 1, <<226, 130>>), \* invalid UTF-8
            F(1, 0, <<226, 40>>), F(8, 1, <<3, 232, 255>>) }                                      \* ... in a fragment, in a close reason
C04Items == C04Valid \cup C04Bad
\* violations while the closing handshake is in progress (client closed first, or server Close already echoed)
C04CloseItems == { F(1, 1, <<97>>), F(8, 1, <<3, 232>>), F(8, 1, <<3, 237>>), F(8, 1, <<3>>), F(8, 1, <<3, 232, 255>>),
                   F(8, 1, <<0, 0>>), F(3, 1, <<>>), F(9, 0, <<>>), F(0, 1, <<1>>), F(1, 1, <<255>>) }

\* ---- C05: text fragments with split multi-byte characters, invalid bytes, empty fragments, a Ping between ------
C05Items == { F(1, 1, Bom), F(1, 0, Euro1), F(0, 1, Euro2), F(0, 0, <<255>>), F(0, 0, <<172, 97>>), F(1, 1, <<97>>), F(1, 0, <<>>), F(0, 1, <<>>),
              F(9, 1, <<>>), F(1, 1, <<237, 160, 128>>), F(8, 1, <<3, 232, 255>>), F(8, 1, <<3, 232, 226, 130, 172>>) }

C04FragItems == { F(2, 0, <<1>>), F(1, 0, <<97>>), F(0, 1, <<2>>), F(0, 0, <<>>), F(9, 1, <<7>>), F(10, 1, <<>>), F(1, 1, <<98>>), F(2, 1, <<>>) }

\* invalid UTF-8 inside a fragmented text message: after an empty or non-empty first fragment, in a non-final continuation, followed by more frames
C04Utf8FragItems == { F(1, 0, <<>>), F(1, 0, <<97>>), F(0, 0, <<255>>), F(0, 0, <<226, 40>>), F(0, 0, <<>>), F(0, 1, <<98>>), F(9, 1, <<7>>), F(2, 0, <<255>>) }

\* ---- C08 / C14 / C09 / C13 -------------------------------------------------------------------------
Reason123 == [i \in 1..123 |-> 97 + (i % 26)]
\* (the fragmented message is a text message: a Close between its fragments must not be read as part of the text)
C08Items == { F(8, 1, <<3, 232>> \o Reason123), F(1, 1, <<97>>), F(1, 0, <<99>>), F(0, 1, <<100>>), F(9, 1, <<7>>), F(8, 1, <<3, 232, 114>>), F(8, 1, <<>>), F(8, 1, <<15, 160>>) }
C14Items == { F(9, 1, <<>>), F(9, 1, <<1>>), FB(9, 1, 125, 1), F(1, 0, <<97>>), F(0, 1, <<98>>), F(2, 1, <<3>>), F(8, 1, <<3, 232>>) }
C09Items == { F(1, 1, <<97>>), F(2, 0, <<1>>), F(0, 1, <<2>>), F(9, 1, <<7>>), F(8, 1, <<3, 232>>), Part }
C13Items == { F(1, 1, <<97>>), F(2, 1, <<1>>), F(9, 1, <<7>>), F(10, 1, <<>>), F(8, 1, <<3, 232>>), F(3, 1, <<>>) }
=============================================================================
