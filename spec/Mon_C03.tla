----------------------------- MODULE Mon_C03 -----------------------------
(* C03: every frame the client writes is a valid client frame that round-trips.                        *)
(* Judged object: [case, exp, tr] where tr contains the records of the one API call: the decoded wr    *)
(* record(s), the call record (res, nwr), and an `arg` record written by the harness: the payload the  *)
(* caller asked to send (as payload value, computed independently) and whether the caller's argument   *)
(* objects were unchanged after the call.                                                              *)
EXTENDS MonCommon

Verdict(x) ==
  LET tr == x.tr
      calls == Calls(tr)
      frames == Frames(tr)
      args == SelectSeq(tr, LAMBDA r : r.k = "arg")
      c == calls[1]
      a == args[1]
      f == frames[1]
      isControl == x.exp.op >= 8
  IN IF Len(calls) # 1 \/ Len(args) # 1 THEN "harness_did_not_record_one_call"
     ELSE IF x.exp.out = "reject" THEN FirstFailing(<<
       <<"unsendable_argument_not_rejected_with_TypeError_or_ValueError", c.res \in {"TypeError", "ValueError"}>>,
       <<"rejected_call_wrote_something", c.nwr = 0 /\ Writes(tr) = <<>> >>,
       <<"caller_data_modified", a.unchanged>>
     >>)
     ELSE IF c.res # "ok" THEN "valid_call_not_accepted"
     ELSE IF ~(c.nwr = 1 /\ Len(Writes(tr)) = 1 /\ Len(frames) = 1) THEN "not_exactly_one_complete_frame"
     ELSE FirstFailing(<<
       <<"fin_not_set", f.fin = 1>>,
       <<"not_masked_with_a_4_byte_key", f.masked /\ Len(f.key) = 4>>,
       <<"length_encoding_not_minimal", f.minimal /\ f.lenform = MinimalForm(PVLen(f.raw))>>,
       <<"reserved_bits_set", f.rsv2 = 0 /\ f.rsv3 = 0 /\ f.rsv1 = x.exp.rsv1>>,
       <<"wrong_opcode", f.op = x.exp.op>>,
       <<"control_payload_too_long", ~isControl \/ PVLen(f.raw) <= 125>>,
       <<"unmasked_payload_differs_from_callers_payload", f.pl = a.pl>>,
       <<"caller_data_modified", a.unchanged>>
     >>)
=============================================================================
