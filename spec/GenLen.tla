------------------------------- MODULE GenLen -------------------------------
(* C01 part (ii): the payload-length grid.  Every payload length at the boundaries of the three length  *)
(* forms x every length form that can express it (i.e. including the non-minimal encodings) x the place *)
(* of the frame in a message.                                                                            *)
EXTENDS Naturals, Sequences, FiniteSets, TLC, Json, Wire
Lens == {0, 1, 125, 126, 127, 65535, 65536, 65537}
Forms(n) == { f \in {7, 16, 64} : (f = 7 => n <= 125) /\ (f = 16 => n <= 65535) }
Places == {"single_text", "single_binary", "first_fragment", "middle_fragment", "last_fragment"}
Cases == { [place |-> p, len |-> n, form |-> f] : p \in Places, n \in Lens, f \in {7, 16, 64} } 
CasesOK == { c \in Cases : c.form \in Forms(c.len) }
CtlCases == { [place |-> p, len |-> n, form |-> 7] : p \in {"ping", "pong", "ping_between_fragments"}, n \in {0, 1, 124, 125} }
ASSUME \A n \in Lens : MinimalForm(n) \in Forms(n) /\ \A f \in Forms(n) : f >= MinimalForm(n)
VARIABLE st
Init == st = "init"
Next == st = "init" /\ st' = "done"
Spec == Init /\ [][Next]_st
EmitCases == st # "done" \/ \A c \in CasesOK \cup CtlCases : PrintT(ToJson([lencase |-> c, minimal |-> c.form = MinimalForm(c.len)]))
=============================================================================
