------------------------------ MODULE Persist ------------------------------
(* Model of lomond/persist.py: reconnect for ever with exponential, randomised, resettable back-off.   *)
(* The environment chooses the outcome of every attempt, the random draw of every back-off and when    *)
(* the exit event is set.  Rationals are <<num, den>> pairs.                                            *)
EXTENDS Naturals, Integers, Sequences, FiniteSets, TLC, Json

CONSTANTS Outcomes,     \* subset of AllOutcomes
          Draws,        \* random draws u in [0,1) as <<num, den>>
          Waits,        \* (min_wait, max_wait) pairs as records
          MaxAttempts
AllOutcomes == {"connect_fail", "rejected", "drop_before_ready", "drop_after_ready", "graceful_close", "protocol_error"}
ReachesReady(o) == o \in {"drop_after_ready", "graceful_close", "protocol_error"}
\* the events a single attempt passes through, per outcome
EventsOf(o) ==
  CASE o = "connect_fail"      -> <<"connecting", "connect_fail">>
    [] o = "rejected"          -> <<"connecting", "connected", "rejected", "disconnected">>
    [] o = "drop_before_ready" -> <<"connecting", "connected", "disconnected">>
    [] o = "drop_after_ready"  -> <<"connecting", "connected", "ready", "poll", "text", "disconnected">>
    [] o = "graceful_close"    -> <<"connecting", "connected", "ready", "poll", "closing", "disconnected">>
    [] o = "protocol_error"    -> <<"connecting", "connected", "ready", "poll", "protocol_error", "disconnected">>

VARIABLES pc, w, retries, hist, exited
vars == <<pc, w, retries, hist, exited>>
Init == pc = "attempt" /\ w \in Waits /\ retries = 0 /\ hist = <<>> /\ exited = FALSE

Pow2(k) == 2 ^ k
Min(a, b) == IF a < b THEN a ELSE b
\* delay = min_wait + u * min(max_wait - min_wait, 2^retries), as a rational
Delay(u, r) == <<w.min * u[2] + u[1] * Min(w.max - w.min, Pow2(r)), u[2]>>

Attempt ==
  /\ pc = "attempt" /\ Len(hist) < MaxAttempts
  /\ \E o \in Outcomes : \E u \in Draws : \E stop \in BOOLEAN :
       LET r1 == IF ReachesReady(o) THEN 0 ELSE retries + 1          \* retries += 1; reset on Ready
       IN /\ hist' = Append(hist, [outcome |-> o, draw |-> u, k |-> r1, delay |-> Delay(u, r1), stop |-> stop])
          /\ retries' = r1
          /\ exited' = stop
          /\ pc' = IF stop THEN "done" ELSE "attempt"
  /\ UNCHANGED w
\* the bound of the model: the exit event is set at the last explored attempt
Cut == pc = "attempt" /\ Len(hist) = MaxAttempts /\ pc' = "cut" /\ UNCHANGED <<w, retries, hist, exited>>
Next == Attempt \/ Cut
Spec == Init /\ [][Next]_vars

\* ---- C16 on the model ---------------------------------------------------------------------------------
\* number of consecutive attempts without Ready ending at attempt i (0 if attempt i reached Ready)
RECURSIVE Consecutive(_, _)
Consecutive(h, i) == IF i = 0 \/ ReachesReady(h[i].outcome) THEN 0 ELSE 1 + Consecutive(h, i - 1)
LeQ(a, b) == a[1] * b[2] <= b[1] * a[2]
DelayInBounds == \A i \in 1..Len(hist) : LeQ(<<w.min, 1>>, hist[i].delay) /\ LeQ(hist[i].delay, <<w.max, 1>>)
UpperLimitDoubles == \A i \in 1..Len(hist) : hist[i].k = Consecutive(hist, i)
OnlyExitEndsIt == (pc = "done") => hist[Len(hist)].stop
Emit == (pc \in {"done"} /\ hist # <<>>) => PrintT(ToJson([w |-> w, hist |-> hist, names |-> [i \in 1..Len(hist) |-> EventsOf(hist[i].outcome)]]))
=============================================================================
