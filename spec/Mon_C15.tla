----------------------------- MODULE Mon_C15 -----------------------------
(* C15: keep-alive, time-outs and polling fire when, and only when, they should.                       *)
(* All times are virtual ticks; clauses are measured from the Ready event.                             *)
EXTENDS MonCommon

IsEv(r, names)  == r.k = "ev" /\ r.name \in names
Times(rs) == [i \in 1..Len(rs) |-> rs[i].t]

Verdict(tr) ==
  LET n == Len(tr)
      cfg == CfgOf(tr)
      p == cfg.poll  r == cfg.ping_rate  t == cfg.ping_timeout  c == cfg.close_timeout
      readyPos == Pos(tr, LAMBDA x : IsEv(x, {"ready"}))
  IN IF readyPos = 0 THEN "ok" ELSE
  LET T0 == tr[readyPos].t
      evs == Events(tr)
      endEv == Last(evs)
      Tend == endEv.t - T0
      polls == Times(SelectSeq(tr, LAMBDA x : IsEv(x, {"poll"})))
      pingsAll == SelectSeq(tr, LAMBDA x : x.k = "wr" /\ Has(x, "op") /\ x.op = OpPing)
      pings == [i \in 1..Len(pingsAll) |-> pingsAll[i].t - T0]
      pongs == Times(SelectSeq(tr, LAMBDA x : IsEv(x, {"pong"})))
      closePos == Pos(tr, LAMBDA x : x.k = "wr" /\ Has(x, "op") /\ x.op = OpClose)
      closeBeforeReady == closePos # 0 /\ closePos < readyPos
      appClosePos == Pos(tr, LAMBDA x : IsCloseCall(x))
      Tc == IF closePos = 0 THEN -1 ELSE tr[closePos].t - T0
      \* the connection is "open" for automatic pings until the client starts closing or the run ends
      Topen == IF closePos # 0 /\ ~closeBeforeReady THEN Tc ELSE Tend
      unrespPos == Pos(tr, LAMBDA x : IsEv(x, {"unresponsive"}))
      signals == <<0>> \o [i \in 1..Len(pongs) |-> pongs[i] - T0]          \* Ready and every Pong
      lastSignalBefore(u) == LET S == { signals[i] : i \in 1..Len(signals) } IN CHOOSE s \in S : s <= u /\ \A s2 \in S : s2 <= u => s2 <= s
      otherCause == \E i \in 1..n : \/ (tr[i].k = "rd" /\ tr[i].what \in {"eof", "error", "boom"})
                                    \/ IsEv(tr[i], {"unresponsive", "protocol_error", "closed", "rejected"})
                                    \/ tr[i].k \in {"escape", "hang", "abandon"}
      forced == endEv.name = "disconnected" /\ ~endEv.graceful /\ ~otherCause
      ks == 1..((Tend \div (IF r = 0 THEN 1 ELSE r)) + 1)
  IN FirstFailing(<<
    <<"no_poll_right_after_ready",
        Len(evs) > 0 /\ (\E i \in (readyPos + 1)..n : tr[i].k = "ev") =>
          LET nx == CHOOSE i \in (readyPos + 1)..n : tr[i].k = "ev" /\ \A j \in (readyPos + 1)..(i - 1) : tr[j].k # "ev"
          IN tr[nx].name = "poll" /\ tr[nx].t = T0>>,
    <<"polls_closer_than_poll_interval", \A i \in 1..(Len(polls) - 1) : polls[i + 1] - polls[i] >= p>>,
    <<"polls_further_apart_than_twice_the_interval", \A i \in 1..(Len(polls) - 1) : polls[i + 1] - polls[i] <= 2 * p>>,
    <<"no_poll_for_more_than_twice_the_interval_before_the_end", polls = <<>> \/ (endEv.t - Last(polls)) <= 2 * p>>,
    <<"ping_written_although_ping_rate_is_zero", r # 0 \/ pings = <<>> >>,
    <<"no_ping_within_poll_interval_after_ready",
        r = 0 \/ closeBeforeReady \/ Topen <= p \/ \E i \in 1..Len(pings) : pings[i] >= 0 /\ pings[i] <= p>>,
    <<"no_ping_within_poll_interval_after_a_multiple_of_ping_rate",
        r = 0 \/ closeBeforeReady \/ \A k \in ks : (k * r + p < Topen) => \E i \in 1..Len(pings) : pings[i] >= k * r /\ pings[i] <= k * r + p>>,
    <<"two_pings_within_one_period",
        r = 0 \/ \A k \in 0..((Tend \div r) + 1) : Cardinality({ i \in 1..Len(pings) : pings[i] > k * r /\ pings[i] <= (k + 1) * r }) <= 1>>,
    <<"unresponsive_without_ping_timeout", t # 0 \/ unrespPos = 0>>,
    <<"unresponsive_too_early",
        unrespPos = 0 \/ (tr[unrespPos].t - T0) - lastSignalBefore(tr[unrespPos].t - T0) > t>>,
    <<"unresponsive_not_followed_by_nongraceful_disconnected",
        unrespPos = 0 \/ ( /\ \E i \in (unrespPos + 1)..n : tr[i].k = "ev"
                           /\ LET nx == CHOOSE i \in (unrespPos + 1)..n : tr[i].k = "ev" /\ \A j \in (unrespPos + 1)..(i - 1) : tr[j].k # "ev"
                              IN tr[nx].name = "disconnected" /\ ~tr[nx].graceful /\ tr[nx].t = tr[unrespPos].t )>>,
    <<"unresponsive_server_not_noticed_within_poll_interval",
        t = 0 \/ \A i \in 1..Len(signals) :
                   LET nxt == IF i < Len(signals) THEN signals[i + 1] ELSE Tend IN nxt - signals[i] <= t + p>>,
    <<"forced_disconnect_without_close_timeout", ~forced \/ (c # 0 /\ closePos # 0)>>,
    <<"forced_disconnect_before_close_timeout", ~forced \/ closeBeforeReady \/ closePos = 0 \/ Tend >= Tc + c>>,
    <<"close_timeout_not_enforced_within_poll_interval",
        c = 0 \/ closePos = 0 \/ closeBeforeReady \/ Tend <= Tc + c + p>>
  >>)
PrefixOK(tr) == TRUE
=============================================================================
