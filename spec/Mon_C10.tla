----------------------------- MODULE Mon_C10 -----------------------------
(* C10: Ready is granted only for a correct upgrade reply to a well-formed request.                    *)
(* Judged object: [case, exp, tr]; tr may contain several connection attempts on the same object       *)
(* (records "conn" separate them); the reply class applies to every attempt.                            *)
EXTENDS MonCommon, Handshake

IsEv(r, names)  == r.k = "ev" /\ r.name \in names
HeaderValues(req, name) == SelectSeq(req.headers, LAMBDA h : h[1] = name)
HasHeader(req, name, value) == \E i \in 1..Len(req.headers) : req.headers[i][1] = name /\ req.headers[i][2] = value
Lower(s) == s      \* header names are lower-cased by the independent request parser of the harness

Verdict(x) ==
  LET tr == x.tr  n == Len(tr)
      reqs == SelectSeq(tr, LAMBDA r : r.k = "wr" /\ r.what = "request")
      conns == Count(tr, LAMBDA r : r.k = "conn")
      keys == [i \in 1..Len(reqs) |-> reqs[i].key]
      readies == Count(tr, LAMBDA r : IsEv(r, {"ready"}))
      rejecteds == Count(tr, LAMBDA r : IsEv(r, {"rejected"}))
      perrs == Count(tr, LAMBDA r : IsEv(r, {"protocol_error"}))
      delivered == Count(tr, LAMBDA r : r.k = "rd" /\ r.what = "data" /\ r.ic >= 1)    \* attempts whose reply arrived completely
      big == x.case.reply.size \in {"big_term", "big_unterm"}
      readyEvs == SelectSeq(tr, LAMBDA r : IsEv(r, {"ready"}))
      connects == SelectSeq(tr, LAMBDA r : r.k = "sock" /\ r.op = "connect")
      endr == Last(tr)
      opt == x.case.opt
      protoOffer == IF Len(opt.protocols) = 0 THEN "" ELSE IF Len(opt.protocols) = 1 THEN opt.protocols[1] ELSE opt.protocols[1] \o ", " \o opt.protocols[2]
  IN FirstFailing(<<
    <<"not_one_request_per_attempt", Len(reqs) = conns /\ \A i \in 1..Len(reqs) : reqs[i].ok /\ reqs[i].rest = 0>>,
    <<"request_line_wrong", \A i \in 1..Len(reqs) : reqs[i].method = "GET" /\ reqs[i].target = x.exp.target /\ reqs[i].version = "HTTP/1.1">>,
    <<"host_header_wrong", \A i \in 1..Len(reqs) : Len(HeaderValues(reqs[i], "host")) = 1 /\ HasHeader(reqs[i], "host", x.exp.host)>>,
    <<"upgrade_headers_wrong", \A i \in 1..Len(reqs) : reqs[i].upgrade_ok /\ reqs[i].connection_ok /\ HasHeader(reqs[i], "sec-websocket-version", "13")>>,
    <<"key_is_not_16_random_bytes_in_base64", \A i \in 1..Len(reqs) : Len(HeaderValues(reqs[i], "sec-websocket-key")) = 1 /\ reqs[i].keylen = 16>>,
    <<"key_reused", \A i \in 1..Len(keys) : \A j \in 1..Len(keys) : i # j => keys[i] # keys[j]>>,
    <<"custom_header_missing", \A i \in 1..Len(reqs) : \A h \in 1..Len(opt.headers) : reqs[i].custom[h]>>,
    <<"protocol_offer_wrong", \A i \in 1..Len(reqs) :
         IF protoOffer = "" THEN HeaderValues(reqs[i], "sec-websocket-protocol") = <<>> ELSE HasHeader(reqs[i], "sec-websocket-protocol", protoOffer)>>,
    <<"extension_offer_wrong", \A i \in 1..Len(reqs) : reqs[i].offers_deflate = opt.compress>>,
    <<"user_agent_wrong", opt.agent = "" \/ \A i \in 1..Len(reqs) : HasHeader(reqs[i], "user-agent", opt.agent)>>,
    <<"connected_to_wrong_address", \A i \in 1..Len(connects) : connects[i].host = x.exp.chost /\ connects[i].port = x.exp.cport>>,
    <<"ready_iff_correct_reply", (x.exp.verdict = "ready" => readies = delivered) /\ (x.exp.verdict # "ready" => readies = 0)>>,
    <<"oversize_reply_not_a_protocol_error", ~big \/ perrs = conns>>,
    <<"protocol_error_for_reply_within_bounds", big \/ perrs = 0>>,
    <<"incorrect_reply_not_rejected", x.exp.verdict # "rejected" \/ rejecteds = delivered>>,
    <<"ready_does_not_report_negotiated_protocol_and_extensions",
        \A i \in 1..Len(readyEvs) : /\ readyEvs[i].protocol = (IF x.case.reply.proto = "" THEN "none" ELSE x.case.reply.proto)
                                    /\ readyEvs[i].extensions = (IF x.case.reply.ext = "" THEN <<>> ELSE <<"permessage-deflate">>)>>,
    <<"message_event_without_ready", x.exp.verdict = "ready" \/ MessageEvents(tr) = <<>> >>,
    <<"socket_not_closed", endr.k = "end" /\ \A i \in 1..Len(endr.socks) : endr.socks[i].closed>>
  >>)
=============================================================================
