----------------------------- MODULE Mon_C05 -----------------------------
(* C05: text (and a close reason) is delivered iff strictly valid UTF-8 (RFC 3629); the delivered      *)
(* string is the exact decoding; for uncompressed text the error is raised as soon as the first        *)
(* offending byte has arrived.  Uses the whole scripted frame sequence (srv records carry byte         *)
(* offsets off/end relative to the end of the HTTP reply; rd records carry fpos, the bytes delivered). *)
EXTENDS MonCommon

IsEv(r, names)  == r.k = "ev" /\ r.name \in names
AllFrames(tr) == UpToClose(SelectSeq(Srv(tr), LAMBDA r : r.it = "f"))
MaxFpos(tr) == LET rs == SelectSeq(tr, LAMBDA r : r.k = "rd" /\ r.what = "data") IN IF rs = <<>> THEN 0 ELSE rs[Len(rs)].fpos

\* absolute offset (0-based, after the HTTP reply) of the byte whose arrival makes the text irrecoverable,
\* for a reference result whose violation is "invalid_utf8" at frame v
DeadOffset(fs, v) ==
  LET f == fs[v]
      d == FirstDeadByte(f.acc.s)
  IN IF d # 0 THEN f.off + (d - (Len(f.acc.s) - Len(f.pl.s))) - 1
     ELSE f.end - 1          \* truncated sequence: known when the final frame is complete

Verdict(tr) ==
  LET fs == AllFrames(tr)
      cfg == CfgOf(tr)
      ref == Ref(fs, cfg.compress)
      n == Len(tr)
      delivered == MaxFpos(tr)
      textMsgs == SelectSeq(ref.msgs, LAMBDA m : m.op = OpText /\ fs[m.at].end <= delivered)
      textEvs == SelectSeq(tr, LAMBDA r : IsEv(r, {"text"}))
      perrs == { i \in 1..n : IsEv(tr[i], {"protocol_error"}) }
      utf8bad == ref.viol # 0 /\ ref.why \in {"invalid_utf8", "close_reason_utf8"}
      \* (with permessage-deflate negotiated a text message is judged once it is complete: Ref then reports its final frame)
      D == IF ref.why = "invalid_utf8" /\ ~cfg.compress THEN DeadOffset(fs, ref.viol) ELSE fs[ref.viol].end - 1
      arrived == utf8bad /\ delivered > D
      \* position of the read that delivered the offending byte
      R == IF arrived THEN CHOOSE i \in 1..n : tr[i].k = "rd" /\ tr[i].what = "data" /\ tr[i].fpos > D
                                             /\ \A j \in 1..(i - 1) : ~(tr[j].k = "rd" /\ tr[j].what = "data" /\ tr[j].fpos > D)
           ELSE 0
      nextRead == IF R = 0 THEN 0 ELSE
                  IF \E i \in (R + 1)..n : tr[i].k = "rd" THEN CHOOSE i \in (R + 1)..n : tr[i].k = "rd" /\ \A j \in (R + 1)..(i - 1) : tr[j].k # "rd"
                  ELSE n + 1
      badFrame == IF utf8bad THEN fs[ref.viol] ELSE [op |-> -1]
  IN FirstFailing(<<
    <<"text_event_is_not_the_exact_decoding",
        \A i \in 1..(IF Len(textEvs) < Len(textMsgs) THEN Len(textEvs) ELSE Len(textMsgs)) :
           textMsgs[i].z \/ EventMatches(textEvs[i], textMsgs[i])>>,
    <<"valid_text_not_delivered", Len(textEvs) >= Len(textMsgs)>>,
    <<"invalid_or_extra_text_delivered", Len(textEvs) <= Len(textMsgs)>>,
    <<"protocol_error_on_well_formed_text",
        ref.viol # 0 \/ perrs = {} \/ Len(fs) < Len(SelectSeq(Srv(tr), LAMBDA r : r.it = "f"))>>,   \* (frames after the server's Close: open)
    <<"invalid_utf8_not_reported", ~arrived \/ Cardinality(perrs) = 1>>,
    <<"invalid_close_reason_delivered",
        ~(arrived /\ ref.why = "close_reason_utf8") \/
        Count(tr, LAMBDA r : IsEv(r, {"closing", "closed"})) <= Len(SelectSeq(ref.msgs, LAMBDA m : m.op = OpClose))>>,
    <<"error_not_raised_when_the_offending_byte_arrived",
        ~(arrived /\ ref.why = "invalid_utf8" /\ ~cfg.compress) \/ Cardinality(perrs) # 1 \/
        LET pe == CHOOSE i \in perrs : TRUE IN pe > R /\ pe < nextRead>>
  >>)
PrefixOK(tr) == TRUE
=============================================================================
