------------------------------ MODULE GenC10 ------------------------------
(* Scenario generator for C10: reply classes x URL shapes x client options.                            *)
EXTENDS Handshake, Json
R(st, up, ac, sz) == [t |-> "http", v |-> "cls", status |-> st, upgrade |-> up, accept |-> ac, size |-> sz, proto |-> "", ext |-> ""]
Valid == R("101", "websocket", "exact", "normal")
Replies ==
     { R(st, up, ac, "normal") : st \in StatusClasses, up \in UpgradeClasses, ac \in AcceptClasses }
  \cup { R("101", "websocket", "exact", sz) : sz \in SizeClasses }
  \cup { R("200", "missing", "missing", sz) : sz \in SizeClasses }
  \cup { R("101", "WebSocket", ac, "exact16k") : ac \in {"exact", "other_key"} }
  \cup { [Valid EXCEPT !.proto = "chat"], [Valid EXCEPT !.ext = "permessage-deflate"],
         [Valid EXCEPT !.proto = "superchat", !.ext = "permessage-deflate; client_max_window_bits=10"] }
U(s, h, p, path, q) == [scheme |-> s, host |-> h, port |-> p, path |-> path, query |-> q]
Urls == { U("ws", "example.com", 0, "", ""), U("ws", "example.com", 0, "/", ""), U("ws", "ws.example.org", 8080, "/chat/room", "x=1&y=2"),
          U("wss", "example.com", 0, "/p", ""), U("wss", "secure.example.com", 9443, "", "token=abc"), U("ws", "example.com", 80, "/a", "") }
Opts == { [headers |-> <<>>, protocols |-> <<>>, compress |-> FALSE, agent |-> ""],
          [headers |-> << <<"X-Custom", "one">>, <<"Authorization", "Bearer t0k">> >>, protocols |-> <<"chat", "superchat">>, compress |-> TRUE, agent |-> "Verif/1.0"],
          [headers |-> << <<"Origin", "http://example.com">> >>, protocols |-> <<"chat">>, compress |-> FALSE, agent |-> ""],
          [headers |-> <<>>, protocols |-> <<>>, compress |-> TRUE, agent |-> ""] }
Cases == { [reply |-> r, url |-> CHOOSE u \in Urls : u.port = 0 /\ u.path = "/" , opt |-> CHOOSE o \in Opts : o.headers = <<>> /\ ~o.compress] : r \in Replies }
    \cup { [reply |-> Valid, url |-> u, opt |-> o] : u \in Urls, o \in Opts }
    \cup { [reply |-> R("200", "websocket", "exact", "normal"), url |-> u, opt |-> CHOOSE o \in Opts : o.compress /\ o.headers # <<>>] : u \in Urls }
Expect(c) == [verdict |-> HVerdict(c.reply), urlstr |-> UrlString(c.url), host |-> HostHeader(c.url), target |-> Target(c.url),
              chost |-> c.url.host, cport |-> PortOf(c.url), tls |-> c.url.scheme = "wss"]
VARIABLE st
Init == st = "init"
Next == st = "init" /\ st' = "done"
Spec == Init /\ [][Next]_st
EmitCases == st # "done" \/ \A c \in Cases : PrintT(ToJson([case |-> c, exp |-> Expect(c)]))
=============================================================================
