----------------------------- MODULE Mon_C01 -----------------------------
(* C01: every server message is delivered once, in order, byte-exact.                                  *)
(* Premise: the frames the server delivered form a conforming sequence (Ref finds no violation).       *)
EXTENDS MonCommon

Applicable(tr) == Ref(DeliveredFrames(tr), CfgOf(tr).compress).viol = 0

Verdict(tr) ==
  LET ref  == Ref(DeliveredFrames(tr), CfgOf(tr).compress)
      evs  == MessageEvents(tr)
      msgs == ref.msgs
      n    == IF Len(evs) < Len(msgs) THEN Len(evs) ELSE Len(msgs)
  IN
  IF ref.viol # 0 THEN "ok"            \* not a conforming server: outside C01 (C04 covers it)
  ELSE FirstFailing(<<
    <<"message_content_or_order_differs", \A i \in 1..n : msgs[i].z \/ EventMatches(evs[i], msgs[i])>>,
    <<"message_dropped",      Len(evs) >= Len(msgs)>>,
    <<"message_duplicated_or_invented", Len(evs) <= Len(msgs)>>,
    <<"payload_changed_after_yield", \A i \in 1..Len(evs) : evs[i].stable>>
  >>)
PrefixOK(tr) == TRUE
=============================================================================
