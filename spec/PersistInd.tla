----------------------------- MODULE PersistInd -----------------------------
(* Unbounded version of the C16 design argument for Apalache: for EVERY pair 0 <= min_wait <= max_wait, every random    *)
(* draw num/den in [0, 1) and every (unbounded) number of consecutive failed attempts, the back-off delay               *)
(*     min_wait + u * min(max_wait - min_wait, 2^retries)                                                               *)
(* stays within [min_wait, max_wait], its upper limit doubles with every failure until it saturates and falls back to   *)
(* min_wait + 1 after an attempt that reached Ready.  2^retries is carried as a variable (pow) so that the step is      *)
(* polynomial; delays are rationals dnum / dden.                                                                        *)
EXTENDS Integers

CONSTANTS
  \* @type: Int;
  MinW,
  \* @type: Int;
  MaxW

VARIABLES
  \* @type: Int;
  retries,
  \* @type: Int;
  pow,
  \* @type: Int;
  cap,
  \* @type: Int;
  dnum,
  \* @type: Int;
  dden,
  \* @type: Bool;
  doubled

ConstInit == MinW \in Int /\ MaxW \in Int /\ MinW >= 0 /\ MaxW >= MinW

Min(a, b) == IF a < b THEN a ELSE b

Init == retries = 0 /\ pow = 1 /\ cap = Min(MaxW - MinW, 1) /\ dnum = MinW /\ dden = 1 /\ doubled = TRUE

\* one connection attempt followed by the back-off computation (persist.py: retries += 1; reset on Ready; wait_for = ...)
Attempt(ready, num, den) ==
  /\ retries' = IF ready THEN 0 ELSE retries + 1
  /\ pow' = IF ready THEN 1 ELSE 2 * pow
  /\ cap' = Min(MaxW - MinW, pow')
  /\ dden' = den
  /\ dnum' = MinW * den + num * cap'
  \* the upper limit of the randomised part doubles with every failure until it saturates at max_wait - min_wait
  /\ doubled' = (ready \/ cap' = Min(MaxW - MinW, 2 * pow))

Next == \E ready \in BOOLEAN : \E num \in Int : \E den \in Int :
          /\ den >= 1 /\ num >= 0 /\ num < den
          /\ Attempt(ready, num, den)

IndInv ==
  /\ retries >= 0 /\ pow >= 1 /\ (retries = 0 => pow = 1)
  /\ cap = Min(MaxW - MinW, pow)
  /\ dden >= 1
  /\ MinW * dden <= dnum                         \* delay >= min_wait
  /\ dnum <= MaxW * dden                         \* delay <= max_wait
  /\ dnum <= (MinW + cap) * dden                 \* delay within the current limit
  /\ doubled

IndInit == /\ retries \in Int /\ pow \in Int /\ cap \in Int /\ dnum \in Int /\ dden \in Int /\ doubled \in BOOLEAN
           /\ IndInv
=============================================================================
