----------------------------- MODULE Mon_C02 -----------------------------
(* C02: the event stream does not depend on how TCP segments the byte stream.                          *)
(* Judged object: [base |-> trace of the single-read execution, vars |-> traces of other segmentations *)
(* of the same server byte stream].  The observable is the sequence of events (with payloads) and of   *)
(* client writes (decoded), in order; time is frozen in these scenarios.                               *)
EXTENDS MonCommon

Observable(tr) == SelectSeq(tr, LAMBDA r : r.k \in {"ev", "wr", "wrf", "stop", "escape", "hang"})
Verdict(x) ==
  LET b == Observable(x.base) IN
  IF \A i \in 1..Len(x.vars) : Observable(x.vars[i]) = b THEN "ok" ELSE "observable_depends_on_segmentation"
=============================================================================
