------------------------------ MODULE GenC03 ------------------------------
(* C03: the client API as a table (method x argument class) with the outcome RFC 6455 and the         *)
(* property demand, the cases to execute, and the data-level facts about header encoding and masking  *)
(* the outcome relies on (checked here by TLC).                                                        *)
EXTENDS Naturals, Integers, Sequences, FiniteSets, TLC, Json, Wire

\* ---- data-level facts (checked as ASSUMEs when the module is loaded) -------------------------------
Lens == {0, 1, 125, 126, 127, 65535, 65536, 65537}
ASSUME \A n \in Lens : /\ MinimalForm(n) = FormOf(LenByte(n))
                       /\ (MinimalForm(n) = 7) = (n <= 125) /\ (MinimalForm(n) = 16) = (n \in 126..65535)
ASSUME \A fin \in 0..1, r1 \in 0..1, r2 \in 0..1, r3 \in 0..1, op \in 0..15, m \in BOOLEAN, l \in {0, 5, 125, 126, 127} :
         LET h == DecodeHdr(EncodeB1(fin, r1, r2, r3, op), (IF m THEN 128 ELSE 0) + l)
         IN h.fin = fin /\ h.rsv1 = r1 /\ h.rsv2 = r2 /\ h.rsv3 = r3 /\ h.op = op /\ h.mask = m /\ h.len7 = l
Keys == { <<0, 0, 0, 0>>, <<255, 255, 255, 255>>, <<1, 2, 4, 8>>, <<128, 64, 32, 16>> }
RECURSIVE Seqs(_, _)
Seqs(S, n) == IF n = 0 THEN {<<>>} ELSE LET T == Seqs(S, n - 1) IN T \cup { Append(t, b) : t \in T, b \in S }
ASSUME \A k \in Keys : \A p \in Seqs({0, 97, 255}, 5) :
         /\ Mask(k, Mask(k, p)) = p                                            \* masking is an involution
         /\ \A i \in 1..Len(p) : Mask(k, p)[i] = Xor8(p[i], k[((i - 1) % 4) + 1])   \* key byte i mod 4 on payload byte i
         /\ (k = <<0, 0, 0, 0>> => Mask(k, p) = p)
ASSUME \A code \in {1000, 1001, 4999} : \A r \in Seqs({97, 226}, 2) :
         LET c == ParseClose(PV(ClosePayload(code, r))) IN c.code = code /\ c.reason = r

\* ---- the API table ---------------------------------------------------------------------------------
\* expected outcome of a call: "frame" (exactly one frame with opcode `op`) or "reject" (TypeError/ValueError, nothing written)
Methods == {"send_text", "send_binary", "send_json", "send_ping", "send_pong", "close"}
OpOf(m) == CASE m \in {"send_text", "send_json"} -> 1 [] m = "send_binary" -> 2 [] m = "send_ping" -> 9 [] m = "send_pong" -> 10 [] m = "close" -> 8
DataLens == {0, 1, 125, 126, 127, 65535, 65536, 65537}
Planes == {"ascii", "two", "three", "four", "mixed"}
Cases ==
     { [m |-> "send_text", cls |-> "valid", len |-> n, plane |-> p, neg |-> g, flag |-> f, code |-> 0] :
          n \in DataLens, p \in Planes, g \in BOOLEAN, f \in BOOLEAN }
  \cup { [m |-> "send_binary", cls |-> "valid", len |-> n, plane |-> p, neg |-> g, flag |-> f, code |-> 0] :
          n \in DataLens, p \in {"allbytes", "zeros", "random"}, g \in BOOLEAN, f \in BOOLEAN }
  \cup { [m |-> "send_json", cls |-> "valid", len |-> n, plane |-> p, neg |-> g, flag |-> TRUE, code |-> 0] :
          n \in {0, 1, 130}, p \in {"dict", "list", "kwargs", "unicode"}, g \in BOOLEAN }
  \* falsy JSON values are values (null, false, 0, "", []), and a positional object together with keyword arguments is refused
  \cup { [m |-> "send_json", cls |-> "valid", len |-> 0, plane |-> p, neg |-> g, flag |-> TRUE, code |-> 0] :
          p \in {"none", "false", "zero", "emptystr", "emptylist"}, g \in BOOLEAN }
  \cup { [m |-> "send_json", cls |-> "conflict", len |-> 1, plane |-> p, neg |-> FALSE, flag |-> TRUE, code |-> 0] :
          p \in {"none_kw", "zero_kw", "dict_kw", "emptydict_kw"} }
  \cup { [m |-> mm, cls |-> "valid", len |-> n, plane |-> p, neg |-> g, flag |-> TRUE, code |-> 0] :
          mm \in {"send_ping", "send_pong"}, n \in {0, 1, 124, 125}, p \in {"allbytes", "zeros"}, g \in BOOLEAN }
  \cup { [m |-> "close", cls |-> "valid", len |-> n, plane |-> p, neg |-> g, flag |-> TRUE, code |-> c] :
          n \in {0, 1, 122, 123}, p \in {"ascii", "bytes", "two", "default"}, g \in BOOLEAN, c \in {-1, 1000, 1001, 4999} }
  \cup { [m |-> mm, cls |-> "wrongtype", len |-> 3, plane |-> p, neg |-> FALSE, flag |-> TRUE, code |-> 0] :
          mm \in {"send_text", "send_binary", "send_ping", "send_pong"}, p \in {"swap", "none", "int", "bytearray", "list"} }
  \cup { [m |-> mm, cls |-> "oversize", len |-> n, plane |-> "allbytes", neg |-> g, flag |-> TRUE, code |-> 0] :
          mm \in {"send_ping", "send_pong"}, n \in {126, 200, 65536}, g \in BOOLEAN }
  \cup { [m |-> "close", cls |-> "oversize", len |-> n, plane |-> p, neg |-> FALSE, flag |-> TRUE, code |-> 1000] :
          n \in {124, 125, 200}, p \in {"ascii", "bytes", "two"} }
Expected(c) == IF c.cls = "valid" THEN [out |-> "frame", op |-> OpOf(c.m),
                                        rsv1 |-> IF c.neg /\ c.flag /\ c.m \in {"send_text", "send_binary", "send_json"} THEN 1 ELSE 0]
               ELSE [out |-> "reject", op |-> OpOf(c.m), rsv1 |-> 0]
VARIABLE st
Init == st = "init"
Next == st = "init" /\ st' = "done"
Spec == Init /\ [][Next]_st
Emit == st = "done" => PrintT(ToJson([cases |-> [c \in Cases |-> Expected(c)]]))
EmitCases == st # "done" \/ \A c \in Cases : PrintT(ToJson([case |-> c, exp |-> Expected(c)]))
=============================================================================
