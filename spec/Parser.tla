------------------------------- MODULE Parser -------------------------------
(* Byte-level model of lomond/parser.py (the coroutine parser's feed loop) driven by the grammar of    *)
(* frame_parser.py: read_until(CRLFCRLF, max) for the HTTP head, then read(2) header / read(n) payload *)
(* per frame.  The environment cuts the byte stream into reads arbitrarily.  Checked property (C02):   *)
(* what has been parsed after any number of reads is a function of the bytes consumed only.            *)
EXTENDS Naturals, Sequences, FiniteSets, TLC, Json

CONSTANTS MaxStream,   \* bound on the stream length in bytes
          MaxHead      \* the max_bytes bound of read_until (16384 in the code)

CR == 13  LF == 10  X == 120
Sep == <<CR, LF, CR, LF>>
\* frame bytes of the model: first byte in {text fin, text, continuation fin, ping, reserved opcode}, length 0..2, payload 'a'
HdrBytes == {129, 1, 128, 137, 131}

VARIABLES stream,  \* bytes the server has sent so far
          pos,     \* bytes consumed by the client
          P        \* parser state: [mode, need, buf, hdr, out, err]
vars == <<stream, pos, P>>

PInit == [mode |-> "until", need |-> 0, buf |-> <<>>, hdr |-> <<>>, out |-> <<>>, err |-> "none"]
Init == stream = <<>> /\ pos = 0 /\ P = PInit

\* index of the first occurrence of Sep in s (1-based index of its first byte), 0 if none
Find(s) == IF \E i \in 1..(Len(s) - 3) : SubSeq(s, i, i + 3) = Sep
           THEN CHOOSE i \in 1..(Len(s) - 3) : SubSeq(s, i, i + 3) = Sep /\ \A j \in 1..(i - 1) : SubSeq(s, j, j + 3) # Sep
           ELSE 0

\* one call of Parser.feed(data): the loop of parser.py, with the three branches of the code
RECURSIVE Feed(_, _)
Feed(p, data) ==
  IF data = <<>> \/ p.err # "none" THEN p
  ELSE IF p.mode = "until" THEN
    LET b == p.buf \o data
        i == Find(b)
    IN IF i = 0
       THEN IF Len(b) > MaxHead THEN [p EXCEPT !.buf = b, !.err = "head_too_long"] ELSE [p EXCEPT !.buf = b]
       ELSE LET e == i + 3 IN
            IF e > MaxHead THEN [p EXCEPT !.buf = b, !.err = "head_too_long"]
            ELSE \* send the head to the coroutine, re-feed what follows the separator
                 Feed([p EXCEPT !.buf = <<>>, !.mode = "hdr", !.need = 2, !.out = Append(@, <<"head", e>>)],
                      SubSeq(b, e + 1, Len(b)))
  ELSE
    LET k == IF Len(data) < p.need THEN Len(data) ELSE p.need
        b == p.buf \o SubSeq(data, 1, k)
        rest == SubSeq(data, k + 1, Len(data))
    IN IF k < p.need THEN [p EXCEPT !.buf = b, !.need = @ - k]
       ELSE IF p.mode = "hdr" THEN
              LET op == b[1] % 16  n == b[2] % 128 IN
              IF op \in {3} THEN [p EXCEPT !.buf = <<>>, !.err = "reserved_opcode"]
              ELSE IF n = 0 THEN Feed([p EXCEPT !.buf = <<>>, !.need = 2, !.out = Append(@, <<"frame", b[1], <<>> >>)], rest)
              ELSE Feed([p EXCEPT !.buf = <<>>, !.mode = "pl", !.need = n, !.hdr = b], rest)
            ELSE Feed([p EXCEPT !.buf = <<>>, !.mode = "hdr", !.need = 2, !.out = Append(@, <<"frame", p.hdr[1], b>>)], rest)

\* the environment: the server sends a head over {CR, LF, x} until it is terminated (or too long), then frames
\* (header byte, length 0..2, payload bytes 'a'); the network delivers any non-empty prefix of what is pending
HeadBytes == {CR, LF, X}
HeadDone == Find(stream) # 0
FramePart == IF HeadDone THEN SubSeq(stream, Find(stream) + 4, Len(stream)) ELSE <<>>
\* what the next byte of the frame part must be: "b1", "b2" or "pl"
RECURSIVE Expect(_, _)
Expect(fp, i) == IF i > Len(fp) THEN "b1"
                 ELSE IF i + 1 > Len(fp) THEN "b2"
                 ELSE LET n == fp[i + 1] IN IF i + 1 + n > Len(fp) THEN (IF i + 1 + n > Len(fp) /\ Len(fp) - (i + 1) < n THEN "pl" ELSE "b1")
                      ELSE Expect(fp, i + 2 + n)
Send == /\ Len(stream) < MaxStream /\ P.err = "none"
        /\ \E b \in (IF ~HeadDone THEN HeadBytes
                      ELSE LET e == Expect(FramePart, 1) IN IF e = "b1" THEN HdrBytes ELSE IF e = "b2" THEN {0, 1, 2} ELSE {97}) :
              stream' = Append(stream, b)
        /\ UNCHANGED <<pos, P>>
Read == /\ pos < Len(stream)
        /\ \E n \in 1..(Len(stream) - pos) :
             /\ P' = Feed(P, SubSeq(stream, pos + 1, pos + n))
             /\ pos' = pos + n
        /\ UNCHANGED stream
Next == Send \/ Read
Spec == Init /\ [][Next]_vars

\* C02 at the parser level: the result is a function of the bytes consumed, not of how they were cut
OneShot == Feed(PInit, SubSeq(stream, 1, pos))
SegmentationIndependent == P.out = OneShot.out /\ P.err = OneShot.err
\* every maximal stream with what a conforming parser makes of it (replayed into the real FrameParser by the harness)
EmitStream == (pos = Len(stream) /\ (Len(stream) = MaxStream \/ P.err # "none")) =>
              PrintT(ToJson([stream |-> stream, out |-> OneShot.out, err |-> OneShot.err]))
=============================================================================
