----------------------------- MODULE Mon_C19 -----------------------------
(* C19: with a proxy configured, nothing is sent to the target before the tunnel is up.                *)
(* Judged object: [exp |-> [useproxy, phost, pport, thost, tport, purl, ok (complete 200 reply), tls], tr] *)
EXTENDS MonCommon

IsEv(r, names)  == r.k = "ev" /\ r.name \in names
Verdict(x) ==
  LET tr == x.tr  n == Len(tr)  e == x.exp
      connects == SelectSeq(tr, LAMBDA r : r.k = "sock" /\ r.op = "connect")
      writes == { i \in 1..n : tr[i].k = "wr" }
      firstWrite == IF writes = {} THEN 0 ELSE CHOOSE i \in writes : \A j \in writes : i <= j
      cpos == { i \in 1..n : tr[i].k = "wr" /\ tr[i].what = "connect" }
      rpos == { i \in 1..n : tr[i].k = "wr" /\ tr[i].what = "request" }
      donePos == { i \in 1..n : tr[i].k = "rd" /\ Has(tr[i], "pdone") /\ tr[i].pdone }
      connectedEvs == SelectSeq(tr, LAMBDA r : IsEv(r, {"connected"}))
      failed == \E i \in 1..n : IsEv(tr[i], {"connect_fail"})
  IN IF ~e.useproxy THEN FirstFailing(<<
       <<"proxy_used_although_none_configured_for_the_scheme", cpos = {} /\ \A i \in 1..Len(connects) : connects[i].host = e.thost /\ connects[i].port = e.tport>>,
       <<"connected_reports_a_proxy", \A i \in 1..Len(connectedEvs) : connectedEvs[i].proxy = "none">>
     >>)
     ELSE FirstFailing(<<
       <<"did_not_connect_to_the_configured_proxy", \A i \in 1..Len(connects) : connects[i].host = e.phost /\ connects[i].port = e.pport>>,
       <<"first_write_is_not_a_CONNECT_for_the_target",
           firstWrite = 0 \/ (tr[firstWrite].what = "connect" /\ tr[firstWrite].ok /\ tr[firstWrite].target = e.ttarget /\ tr[firstWrite].version = "HTTP/1.1")>>,
       <<"more_than_one_CONNECT", Cardinality(cpos) <= 1>>,
       <<"written_before_the_proxy_answered",
           \A i \in writes : i = firstWrite \/ \E d \in donePos : firstWrite < d /\ d < i>>,
       <<"handshake_without_complete_200_reply", e.ok \/ rpos = {}>>,
       <<"no_connect_fail_for_bad_proxy_answer", e.ok \/ (failed /\ connectedEvs = <<>>)>>,
       <<"handshake_not_started_after_200", ~e.ok \/ (Cardinality(rpos) = 1 /\ Len(connectedEvs) = 1)>>,
       <<"handshake_on_another_socket", \A i \in rpos : \A c \in cpos : tr[i].sock = tr[c].sock>>,
       <<"connected_does_not_report_the_proxy", \A i \in 1..Len(connectedEvs) : connectedEvs[i].proxy = e.purl>>,
       <<"tls_not_wrapped_after_tunnel", ~(e.ok /\ e.tls) \/ \E i \in 1..n : tr[i].k = "sock" /\ tr[i].op = "wrap" /\ (\E d \in donePos : d < i) /\ (\A r \in rpos : i < r)>>
     >>)
=============================================================================
