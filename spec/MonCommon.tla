---------------------------- MODULE MonCommon ----------------------------
(* Helpers shared by the property monitors.  A trace is a sequence of observation records (field k).  *)
(* The same operators are applied to the `obs` history of the model and to traces recorded from the   *)
(* real code.                                                                                          *)
EXTENDS Naturals, Integers, Sequences, FiniteSets, TLC, Wire, Reasm

Has(r, f) == f \in DOMAIN r
Sel(tr, P(_)) == SelectSeq(tr, P)
Events(tr)  == SelectSeq(tr, LAMBDA r : r.k = "ev")
Writes(tr)  == SelectSeq(tr, LAMBDA r : r.k = "wr")
Frames(tr)  == SelectSeq(tr, LAMBDA r : r.k = "wr" /\ r.what = "frame")
Calls(tr)   == SelectSeq(tr, LAMBDA r : r.k = "call")
Srv(tr)     == SelectSeq(tr, LAMBDA r : r.k = "srv")
Reads(tr)   == SelectSeq(tr, LAMBDA r : r.k = "rd")
NamesOf(es) == [i \in 1..Len(es) |-> es[i].name]
Count(tr, P(_)) == Len(SelectSeq(tr, P))
Last(s) == s[Len(s)]

\* index of the first element satisfying P, 0 if none
FirstIdx(s, P(_)) == IF \E i \in 1..Len(s) : P(s[i]) THEN CHOOSE i \in 1..Len(s) : P(s[i]) /\ \A j \in 1..(i-1) : ~P(s[j]) ELSE 0

MessageEventNames == {"text", "binary", "ping", "pong", "closing", "closed"}
TerminalNames == {"connect_fail", "disconnected"}

\* ---- what the server really delivered ----------------------------------------------------------------
\* number of stream items (HTTP reply included) whose last byte has been handed to the client
MaxIc(tr) == LET rs == SelectSeq(tr, LAMBDA r : r.k = "rd" /\ r.what = "data") IN IF rs = <<>> THEN 0 ELSE rs[Len(rs)].ic
DeliveredItems(tr) == LET sv == Srv(tr) n == MaxIc(tr) IN SubSeq(sv, 1, IF n > Len(sv) THEN Len(sv) ELSE n)
DeliveredFrames(tr) == SelectSeq(DeliveredItems(tr), LAMBDA r : r.it = "f")
\* Once the server has sent a Close frame the stream is over as far as RFC 6455 is concerned: what a client
\* does with frames that follow it is left open (either behaviour is accepted by the monitors that use this).
UpToClose(fs) == LET c == FirstIdx(fs, LAMBDA f : f.op = OpClose) IN IF c = 0 THEN fs ELSE SubSeq(fs, 1, c)
CfgOf(tr) == LET cs == SelectSeq(tr, LAMBDA r : r.k = "cfg") IN cs[1]
MessageEvents(tr) == SelectSeq(tr, LAMBDA r : r.k = "ev" /\ r.name \in MessageEventNames)
\* position (index in tr) of the first record satisfying P, 0 if none
Pos(tr, P(_)) == FirstIdx(tr, P)
EvNames(tr) == NamesOf(Events(tr))

\* an application close() that was carried out (a close() refused with ValueError - unsendable reason - starts nothing)
IsCloseCall(r) == r.k = "call" /\ r.m = "close" /\ r.res = "ok"

\* does message event e carry reference message m (same kind, same content)?
EventMatches(e, m) ==
  CASE m.op = OpText  -> /\ e.name = "text" /\ e.isstr /\ e.pl = m.pl
                         /\ PVIsSmall(m.pl) => e.cps = Decode(m.pl.s)
    [] m.op = OpBin   -> e.name = "binary" /\ e.isbytes /\ e.pl = m.pl
    [] m.op = OpPing  -> e.name = "ping" /\ e.isbytes /\ e.pl = m.pl
    [] m.op = OpPong  -> e.name = "pong" /\ e.isbytes /\ e.pl = m.pl
    [] m.op = OpClose -> e.name \in {"closing", "closed"} /\ e.code = m.code /\ e.reason.s = m.reason
    [] OTHER -> FALSE

\* first clause that fails, "ok" if none: cs is a sequence of <<name, BOOLEAN>> pairs
FirstFailing(cs) == IF \E i \in 1..Len(cs) : ~cs[i][2]
                    THEN cs[CHOOSE i \in 1..Len(cs) : ~cs[i][2] /\ \A j \in 1..(i-1) : cs[j][2]][1]
                    ELSE "ok"
=============================================================================
