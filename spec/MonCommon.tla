---------------------------- MODULE MonCommon ----------------------------
(* Helpers shared by the property monitors.  A trace is a sequence of observation records (field k).  *)
(* The same operators are applied to the `obs` history of the model and to traces recorded from the   *)
(* real code.                                                                                          *)
EXTENDS Naturals, Integers, Sequences, FiniteSets, TLC, Wire

Has(r, f) == f \in DOMAIN r
Sel(tr, P(_)) == SelectSeq(tr, P)
Events(tr)  == SelectSeq(tr, LAMBDA r : r.k = "ev")
Writes(tr)  == SelectSeq(tr, LAMBDA r : r.k = "wr")
Frames(tr)  == SelectSeq(tr, LAMBDA r : r.k = "wr" /\ r.what = "frame")
Calls(tr)   == SelectSeq(tr, LAMBDA r : r.k = "call")
Srv(tr)     == SelectSeq(tr, LAMBDA r : r.k = "srv")
Reads(tr)   == SelectSeq(tr, LAMBDA r : r.k = "rd")
NamesOf(es) == [i \in 1..Len(es) |-> es[i].name]
Count(tr, P(_)) == Len(SelectSeq(tr, P))
Last(s) == s[Len(s)]

\* index of the first element satisfying P, 0 if none
FirstIdx(s, P(_)) == IF \E i \in 1..Len(s) : P(s[i]) THEN CHOOSE i \in 1..Len(s) : P(s[i]) /\ \A j \in 1..(i-1) : ~P(s[j]) ELSE 0

MessageEventNames == {"text", "binary", "ping", "pong", "closing", "closed"}
TerminalNames == {"connect_fail", "disconnected"}

\* first clause that fails, "ok" if none: cs is a sequence of <<name, BOOLEAN>> pairs
FirstFailing(cs) == IF \E i \in 1..Len(cs) : ~cs[i][2]
                    THEN cs[CHOOSE i \in 1..Len(cs) : ~cs[i][2] /\ \A j \in 1..(i-1) : cs[j][2]][1]
                    ELSE "ok"
=============================================================================
