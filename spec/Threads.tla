------------------------------ MODULE Threads ------------------------------
(* The send path of lomond at shared-access granularity: application threads and the event-loop thread  *)
(* calling send_*(), close() and the loop's own pong / auto-ping / close-echo.  Shared state: the        *)
(* session's write lock, the compress lock, the closing flag, the deflate context (as the order in which *)
(* messages were compressed) and the wire (every sendall is two steps, so a torn write is observable).   *)
(* Variant = "repaired" is the code after the fix commits; "as_found" is the pinned snapshot and          *)
(* "pre_f8" the tree before the last of them (closing -> closed transition), kept so that TLC exhibits   *)
(* the schedules that break C11/C12 there.                                                               *)
EXTENDS Naturals, Sequences, FiniteSets, TLC

CONSTANTS Programs,   \* a sequence (one entry per thread) of sequences of operations: "send", "zsend", "ctl", "close", "srvclose"
          Variant     \* "repaired", "pre_f8" or "as_found"
F45 == Variant # "as_found"          \* closing set under the write lock; compress + write serialised
F8  == Variant = "repaired"          \* closed set before closing is cleared; write() reads closing before closed
Threads == 1..Len(Programs)
VARIABLES pc, ip, lock, zlock, closing, closed, wire, zorder, results
vars == <<pc, ip, lock, zlock, closing, closed, wire, zorder, results>>

Init == /\ pc = [t \in Threads |-> "next"] /\ ip = [t \in Threads |-> 1]
        /\ lock = 0 /\ zlock = 0 /\ closing = FALSE /\ closed = FALSE /\ wire = <<>> /\ zorder = <<>> /\ results = <<>>
Op(t) == Programs[t][ip[t]]
Msg(t) == <<t, ip[t]>>
Finish(t, res) == /\ results' = Append(results, [th |-> t, i |-> ip[t], op |-> Op(t), res |-> res])
                  /\ ip' = [ip EXCEPT ![t] = @ + 1] /\ pc' = [pc EXCEPT ![t] = "next"]

Begin(t) ==
  /\ pc[t] = "next" /\ ip[t] <= Len(Programs[t])
  /\ pc' = [pc EXCEPT ![t] = CASE Op(t) = "zsend" -> (IF F45 THEN "zacq" ELSE "compress")
                                [] Op(t) = "close" -> "closetest"
                                [] Op(t) = "srvclose" -> "srvtest"
                                [] OTHER -> "acq"]
  /\ UNCHANGED <<ip, lock, zlock, closing, closed, wire, zorder, results>>
\* compressed send: (repaired) take the compress lock over compress + write
ZAcq(t) == /\ pc[t] = "zacq" /\ zlock = 0 /\ zlock' = t /\ pc' = [pc EXCEPT ![t] = "compress"]
           /\ UNCHANGED <<ip, lock, closing, closed, wire, zorder, results>>
Compress(t) == /\ pc[t] = "compress" /\ zorder' = Append(zorder, Msg(t)) /\ pc' = [pc EXCEPT ![t] = "acq"]
               /\ UNCHANGED <<ip, lock, zlock, closing, closed, wire, results>>
\* close(): the is_closing test happens before the write lock is taken
CloseTest(t) == /\ pc[t] = "closetest"
                /\ IF closing \/ closed THEN Finish(t, "noop") /\ UNCHANGED <<lock, zlock, closing, closed, wire, zorder>>
                   ELSE pc' = [pc EXCEPT ![t] = "acq"] /\ UNCHANGED <<ip, lock, zlock, closing, closed, wire, zorder, results>>
\* the loop thread processes a Close frame of the server (_on_close): nothing when closed; the reply to our own Close moves
\* closing -> closed in two assignments WITHOUT the write lock; otherwise it echoes the Close like close() does
SrvTest(t) == /\ pc[t] = "srvtest"
              /\ IF closed THEN Finish(t, "noop") /\ UNCHANGED <<lock, zlock, closing, closed, wire, zorder>>
                 ELSE /\ pc' = [pc EXCEPT ![t] = IF closing THEN "tr1" ELSE "acq"]
                      /\ UNCHANGED <<ip, lock, zlock, closing, closed, wire, zorder, results>>
Tr1(t) == /\ pc[t] = "tr1" /\ pc' = [pc EXCEPT ![t] = "tr2"]
          /\ IF F8 THEN closed' = TRUE /\ UNCHANGED closing ELSE closing' = FALSE /\ UNCHANGED closed
          /\ UNCHANGED <<ip, lock, zlock, wire, zorder, results>>
Tr2(t) == /\ pc[t] = "tr2"
          /\ IF F8 THEN closing' = FALSE /\ UNCHANGED closed ELSE closed' = TRUE /\ UNCHANGED closing
          /\ Finish(t, "ok") /\ UNCHANGED <<lock, zlock, wire, zorder>>
\* session.write(): lock, refuse when closed / closing (two separate reads of the two flags), sendall in two steps,
\* (repaired: a Close frame sets closing under the lock)
Acq(t) == /\ pc[t] = "acq" /\ lock = 0 /\ lock' = t /\ pc' = [pc EXCEPT ![t] = "check"]
          /\ UNCHANGED <<ip, zlock, closing, closed, wire, zorder, results>>
Check(t) == /\ pc[t] = "check"
            /\ IF (IF F8 THEN closing ELSE closed) THEN pc' = [pc EXCEPT ![t] = "refused"] ELSE pc' = [pc EXCEPT ![t] = "check2"]
            /\ UNCHANGED <<ip, lock, zlock, closing, closed, wire, zorder, results>>
Check2(t) == /\ pc[t] = "check2"
             /\ IF (IF F8 THEN closed ELSE closing) THEN pc' = [pc EXCEPT ![t] = "refused"] ELSE pc' = [pc EXCEPT ![t] = "w1"]
             /\ UNCHANGED <<ip, lock, zlock, closing, closed, wire, zorder, results>>
W1(t) == /\ pc[t] = "w1" /\ wire' = Append(wire, <<t, ip[t], 1>>) /\ pc' = [pc EXCEPT ![t] = "w2"]
         /\ UNCHANGED <<ip, lock, zlock, closing, closed, zorder, results>>
W2(t) == /\ pc[t] = "w2" /\ wire' = Append(wire, <<t, ip[t], 2>>)
         /\ closing' = (closing \/ (F45 /\ Op(t) \in {"close", "srvclose"}))
         /\ pc' = [pc EXCEPT ![t] = "rel"]
         /\ UNCHANGED <<ip, lock, zlock, closed, zorder, results>>
Rel(t) == /\ pc[t] \in {"rel", "refused"} /\ lock' = 0
          /\ zlock' = IF zlock = t THEN 0 ELSE zlock
          /\ IF Op(t) \in {"close", "srvclose"} THEN pc' = [pc EXCEPT ![t] = "setclosing"] /\ UNCHANGED <<ip, results>>
             ELSE Finish(t, IF pc[t] = "refused" THEN "WebSocketClosing" ELSE "ok")
          /\ UNCHANGED <<closing, closed, wire, zorder>>
SetClosing(t) == /\ pc[t] = "setclosing" /\ closing' = TRUE /\ Finish(t, "ok")
                 /\ UNCHANGED <<lock, zlock, closed, wire, zorder>>
Step(t) == Begin(t) \/ ZAcq(t) \/ Compress(t) \/ CloseTest(t) \/ SrvTest(t) \/ Tr1(t) \/ Tr2(t) \/ Acq(t) \/ Check(t) \/ Check2(t)
           \/ W1(t) \/ W2(t) \/ Rel(t) \/ SetClosing(t)
Next == \E t \in Threads : Step(t)
Spec == Init /\ [][Next]_vars

\* ---- C11 / C12 on the model ---------------------------------------------------------------------------
IsClose(w) == Programs[w[1]][w[2]] \in {"close", "srvclose"}
IsZ(w) == Programs[w[1]][w[2]] = "zsend"
NoTornWrite == \A i \in 1..Len(wire) : wire[i][3] = 2 => (i > 1 /\ wire[i - 1] = <<wire[i][1], wire[i][2], 1>>)
FirstHalves == SelectSeq(wire, LAMBDA w : w[3] = 1)
AtMostOneClose == Cardinality({ i \in 1..Len(FirstHalves) : IsClose(FirstHalves[i]) }) <= 1
NothingAfterClose == \A i \in 1..Len(FirstHalves) : IsClose(FirstHalves[i]) => i = Len(FirstHalves)
\* with context takeover the peer inflates in wire order: it must be the order of compression
WireZ == SelectSeq(FirstHalves, LAMBDA w : IsZ(w))
CompressOrderIsWireOrder == \A i \in 1..Len(WireZ) : i <= Len(zorder) /\ <<WireZ[i][1], WireZ[i][2]>> = zorder[i]
PerThreadOrder == \A i, j \in 1..Len(FirstHalves) : (i < j /\ FirstHalves[i][1] = FirstHalves[j][1]) => FirstHalves[i][2] < FirstHalves[j][2]
LoserGetsError == \A i \in 1..Len(results) : results[i].res = "ok" \/ results[i].op \in {"close", "srvclose"}
                      \/ ~\E k \in 1..Len(wire) : wire[k][1] = results[i].th /\ wire[k][2] = results[i].i
=============================================================================
