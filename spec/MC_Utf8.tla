------------------------------ MODULE MC_Utf8 ------------------------------
(* Design-level check of spec/Utf8.tla: the incremental automaton accepts exactly the well-formed      *)
(* sequences of Table 3-7, is dead exactly when no continuation can be well-formed (fail-fast means    *)
(* precisely that), and Decode inverts Encode.  Also prints the automaton's transition table, which    *)
(* the harness turns into one call of the real validator per row.                                      *)
EXTENDS Utf8, TLC, Json
CONSTANTS MaxLen, ExtLen
\* the bytes at the boundaries of every range of Table 3-7
Boundary == {0, 127, 128, 143, 144, 159, 160, 191, 192, 193, 194, 223, 224, 225, 236, 237, 238, 239, 240, 241, 243, 244, 245, 255}
VARIABLE seq
Init == seq = <<>>
Next == Len(seq) < MaxLen /\ \E b \in Boundary : seq' = Append(seq, b)
Spec == Init /\ [][Next]_seq

\* Some continuation of at most k bytes makes s well-formed.  Only continuation bytes can complete a started
\* code point; every continuation range of Table 3-7 contains one of these boundary values.
Conts == {128, 143, 144, 159, 160, 191}
RECURSIVE Extendable(_, _)
Extendable(s, k) == WellFormed(s) \/ (k > 0 /\ \E b \in Conts : Extendable(Append(s, b), k - 1))

AcceptIffWellFormed == U8Accepts(seq) <=> WellFormed(seq)
\* fail-fast is exact: a live state always has a well-formed continuation; a dead one never recovers
\* (DeadIsPermanent + AcceptIffWellFormed give the other direction for every extension over Boundary)
DeadIffNoContinuation == U8Rejects(seq) <=> ~Extendable(seq, ExtLen)
DeadIsPermanent == U8Rejects(seq) => \A b \in Boundary : U8Rejects(Append(seq, b))
FirstDeadConsistent == LET d == FirstDeadByte(seq) IN
                       IF d = 0 THEN ~U8Rejects(seq) ELSE U8Rejects(SubSeq(seq, 1, d)) /\ ~U8Rejects(SubSeq(seq, 1, d - 1))
DecodeInvertsEncode == WellFormed(seq) =>
   LET cps == Decode(seq)
       RECURSIVE Enc(_) Enc(i) == IF i > Len(cps) THEN <<>> ELSE Encode(cps[i]) \o Enc(i + 1)
   IN (\A i \in 1..Len(cps) : IsScalar(cps[i])) /\ Enc(1) = seq

\* ---- transition table ----------------------------------------------------------------------------
\* the reachable automaton states, each with an access sequence
States == { <<>>, <<128..191>>, <<160..191, 128..191>>, <<128..191, 128..191>>, <<128..159, 128..191>>,
            <<144..191, 128..191, 128..191>>, <<128..191, 128..191, 128..191>>, <<128..143, 128..191, 128..191>>, U8Dead }
Access(s) == CASE s = <<>> -> <<>>
               [] s = <<128..191>> -> <<194>>
               [] s = <<160..191, 128..191>> -> <<224>>
               [] s = <<128..191, 128..191>> -> <<225>>
               [] s = <<128..159, 128..191>> -> <<237>>
               [] s = <<144..191, 128..191, 128..191>> -> <<240>>
               [] s = <<128..191, 128..191, 128..191>> -> <<241>>
               [] s = <<128..143, 128..191, 128..191>> -> <<244>>
               [] s = U8Dead -> <<255>>
StateName(s) == CASE s = <<>> -> "accept" [] s = U8Dead -> "dead" [] OTHER -> "mid"
ClosedUnderStep == \A s \in States : \A b \in 0..255 : U8Step(s, b) \in States
AccessOK == \A s \in States : U8Run(U8Start, Access(s)) = s
Row(s) == [access |-> Access(s), name |-> StateName(s),
           next |-> [b \in 1..256 |-> LET t == U8Step(s, b - 1) IN [name |-> StateName(t), access |-> Access(t)]]]
ASSUME ClosedUnderStep /\ AccessOK
EmitTable == seq # <<>> \/ PrintT(ToJson([table |-> [s \in States |-> Row(s)]]))
=============================================================================
