---------------------------- MODULE HttpHeaders ----------------------------
(* RFC 7230 section 3.2: what a header block means.  Field names are case-insensitive; optional         *)
(* whitespace around the value is not part of it; an obs-fold continuation line is replaced by a space;  *)
(* repeated fields are the comma-separated list of their values, in order.  The harness renders every    *)
(* block as bytes in the described spelling and compares lomond.response.Response with Lookup.           *)
EXTENDS Naturals, Sequences, FiniteSets, TLC, Json

Names  == {"upgrade", "x-other"}
Cases  == {"lower", "mixed", "upper"}          \* how the name is spelled on the wire
Values == {"websocket", "b"}
Folds  == {"", "c"}                            \* text of an obs-fold continuation line ("" = none)
Lines  == { [name |-> n, ncase |-> c, ws1 |-> a, ws2 |-> b, value |-> v, fold |-> f] :
            n \in Names, c \in Cases, a \in {0, 1}, b \in {0, 2}, v \in Values, f \in Folds }

\* the value a single line contributes (obs-fold -> one space)
LineValue(l) == IF l.fold = "" THEN l.value ELSE l.value \o " " \o l.fold
\* the list of values of field `name` in a block, in order
Lookup(block, name) == LET ls == SelectSeq(block, LAMBDA l : l.name = name) IN [i \in 1..Len(ls) |-> LineValue(ls[i])]

VARIABLES block
Init == block = <<>>
Next == Len(block) < 2 /\ \E l \in Lines : block' = Append(block, l)
Spec == Init /\ [][Next]_block
\* casing and whitespace are irrelevant by construction of Lookup; order of different fields is irrelevant:
OrderIrrelevant == Len(block) = 2 /\ block[1].name # block[2].name =>
                     \A n \in Names : Lookup(block, n) = Lookup(<<block[2], block[1]>>, n)
Emit == block = <<>> \/ PrintT(ToJson([block |-> block, upgrade |-> Lookup(block, "upgrade"), other |-> Lookup(block, "x-other")]))
=============================================================================
