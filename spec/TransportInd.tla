---------------------------- MODULE TransportInd ----------------------------
(* Unbounded version of the C18 design argument for Apalache: for EVERY buffer size, record size, short-read cap,     *)
(* burst size and number of bursts, the loop with the pending() short-cut never blocks while the TLS layer holds       *)
(* decrypted bytes, and everything that has arrived has been consumed whenever it blocks (inductive invariant).        *)
EXTENDS Integers

CONSTANTS
  \* @type: Int;
  Buf,
  \* @type: Int;
  Rec,
  \* @type: Int;
  Short

VARIABLES
  \* @type: Bool;
  tls,
  \* @type: Int;
  kbuf,
  \* @type: Int;
  tbuf,
  \* @type: Int;
  consumed,
  \* @type: Int;
  arrived,
  \* @type: Str;
  pc,
  \* @type: Bool;
  stalled

ConstInit == /\ Buf \in Int /\ Rec \in Int /\ Short \in Int
             /\ Buf >= 1 /\ Rec >= 1 /\ Rec <= Buf /\ Short >= 1

Min(a, b) == IF a < b THEN a ELSE b

Init == /\ tls \in BOOLEAN /\ kbuf = 0 /\ tbuf = 0 /\ consumed = 0 /\ arrived = 0 /\ pc = "wait" /\ stalled = FALSE

Wait ==
  /\ pc = "wait"
  /\ IF tls /\ tbuf > 0 THEN pc' = "recv" /\ UNCHANGED <<kbuf, arrived, stalled>>
     ELSE IF kbuf > 0 THEN pc' = "recv" /\ UNCHANGED <<kbuf, arrived, stalled>>
     ELSE /\ stalled' = (stalled \/ tbuf > 0 \/ consumed # arrived)
          /\ \/ pc' = "done" /\ UNCHANGED <<kbuf, arrived>>
             \/ \E b \in Int : b >= 1 /\ kbuf' = kbuf + b /\ arrived' = arrived + b /\ pc' = "recv"
  /\ UNCHANGED <<tls, tbuf, consumed>>

Recv ==
  /\ pc = "recv"
  /\ LET max == IF tls /\ tbuf > 0 THEN tbuf ELSE Buf IN
     IF ~tls THEN LET n == Min(max, kbuf) IN kbuf' = kbuf - n /\ consumed' = consumed + n /\ UNCHANGED tbuf
     ELSE LET r == IF tbuf = 0 THEN Min(Rec, kbuf) ELSE 0
              t1 == tbuf + r
              n == Min(Min(max, t1), Short)
          IN kbuf' = kbuf - r /\ tbuf' = t1 - n /\ consumed' = consumed + n
  /\ pc' = "wait"
  /\ UNCHANGED <<tls, arrived, stalled>>

Next == Wait \/ Recv

\* inductive invariant: byte conservation, non-negativity, plain TCP never uses the TLS buffer, never stalled
IndInv ==
  /\ pc \in {"wait", "recv", "done"}
  /\ kbuf >= 0 /\ tbuf >= 0 /\ consumed >= 0 /\ arrived >= 0
  /\ arrived = consumed + kbuf + tbuf
  /\ (~tls => tbuf = 0)
  /\ (pc = "recv" => (kbuf > 0 \/ (tls /\ tbuf > 0)))
  /\ (pc = "done" => (kbuf = 0 /\ tbuf = 0))
  /\ ~stalled
IndInit == /\ tls \in BOOLEAN /\ kbuf \in Int /\ tbuf \in Int /\ consumed \in Int /\ arrived \in Int
           /\ pc \in {"wait", "recv", "done"} /\ stalled \in BOOLEAN
           /\ IndInv
NoStall == ~stalled
=============================================================================
