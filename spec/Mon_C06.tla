----------------------------- MODULE Mon_C06 -----------------------------
(* C06: permessage-deflate is lossless both ways for every negotiated configuration.                   *)
(* srv records of data messages carry `orig`, the application payload the independent RFC 7692 peer     *)
(* compressed; wr records carry `pl`, what that peer inflated from the client's frame (in wire order,    *)
(* honouring the negotiated window and takeover flags), or the digest INFLATE-FAILED.                    *)
EXTENDS MonCommon

IsEv(r, names)  == r.k = "ev" /\ r.name \in names
SendCalls == {"send_text", "send_binary"}
Verdict(x) ==
  LET tr == x.tr  n == Len(tr)
      neg == x.negotiated
      fs == DeliveredFrames(tr)
      ref == Ref(fs, neg)
      mevs == SelectSeq(MessageEvents(tr), LAMBDA e : e.name \in {"text", "binary"})
      dmsgs == SelectSeq(ref.msgs, LAMBDA m : m.op \in {OpText, OpBin})
      k == IF Len(mevs) < Len(dmsgs) THEN Len(mevs) ELSE Len(dmsgs)
      perr == \E i \in 1..n : IsEv(tr[i], {"protocol_error"})
      callPos == { i \in 1..n : tr[i].k = "call" /\ tr[i].m \in SendCalls /\ tr[i].res = "ok" }
      dataFrames == SelectSeq(tr, LAMBDA r : r.k = "wr" /\ r.what = "frame" /\ r.op \in {OpText, OpBin, OpCont})
  IN FirstFailing(<<
    <<"compressed_message_delivered_with_wrong_content",
        \A i \in 1..k : mevs[i].name = (IF dmsgs[i].op = OpText THEN "text" ELSE "binary") /\ mevs[i].pl = fs[dmsgs[i].at].orig>>,
    <<"peer_message_neither_delivered_nor_reported", Len(mevs) = Len(dmsgs) \/ perr>>,
    <<"protocol_error_for_a_correct_peer", ref.viol # 0 \/ ~perr>>,
    <<"extra_message_delivered", Len(mevs) <= Len(dmsgs)>>,
    <<"client_message_not_restored_by_the_peer",
        \A c \in callPos : tr[c].nwr = 1 /\ tr[c - 1].k = "wr" /\ tr[c - 1].pl = tr[c].pl>>,
    <<"rsv1_without_negotiation_or_with_compress_false",
        \A c \in callPos : tr[c - 1].k = "wr" /\ tr[c - 1].rsv1 = (IF neg /\ tr[c].cflag THEN 1 ELSE 0)>>,
    <<"rsv1_on_a_frame_that_is_not_a_compressed_data_message",
        \A i \in 1..n : (tr[i].k = "wr" /\ tr[i].what = "frame" /\ tr[i].rsv1 = 1) => (neg /\ tr[i].op \in {OpText, OpBin})>>
  >>)
=============================================================================
