----------------------------- MODULE Mon_C14 -----------------------------
(* C14: every Ping is answered by exactly one matching Pong, in order, before anything the application *)
(* sends in reaction; none with auto_pong off; an unwritable Pong is dropped silently.                 *)
(* The judged object is [tr |-> trace, tw |-> twin trace of the same scenario with no failing write]   *)
EXTENDS MonCommon

\* positions in tr
Idx(tr, P(_)) == { i \in 1..Len(tr) : P(tr[i]) }
SeqOfSet(S) == LET RECURSIVE Sort(_) Sort(T) == IF T = {} THEN <<>> ELSE LET m == CHOOSE x \in T : \A y \in T : x <= y IN <<m>> \o Sort(T \ {m}) IN Sort(S)

Verdict(x) ==
  LET tr == x.tr
      cfg == CfgOf(tr)
      pingPos == SeqOfSet(Idx(tr, LAMBDA r : r.k = "ev" /\ r.name = "ping"))
      pongPos == SeqOfSet(Idx(tr, LAMBDA r : r.k = "wr" /\ r.what = "frame" /\ r.op = OpPong))
      closeWritten(p) == \E i \in 1..(p - 1) : (tr[i].k = "wr" /\ tr[i].what = "frame" /\ tr[i].op = OpClose)
                                                \/ (tr[i].k = "wrf" /\ tr[i].op = OpClose)      \* attempted: connection is closing
      \* the library was closing/closed or the transport had failed when the Ping was processed
      appClosed(p) == \E i \in 1..(p - 1) : IsCloseCall(tr[i])
      pongFailed(p) == \E i \in 1..(p - 1) : tr[i].k = "wrf" /\ tr[i].op = OpPong
                          /\ \A j \in (i + 1)..(p - 1) : tr[j].k # "ev"
      answerable(p) == cfg.auto_pong /\ ~closeWritten(p) /\ ~appClosed(p) /\ ~pongFailed(p)
      expected == SelectSeq(pingPos, answerable)
      ref == Ref(DeliveredFrames(tr), cfg.compress)
      refPings == SelectSeq(ref.msgs, LAMBDA m : m.op = OpPing)
      \* nothing ended the connection before the delivered frames could be processed
      quiet == \A i \in 1..Len(tr) : /\ ~(tr[i].k \in {"abandon", "escape", "hang"})
                                     /\ ~(tr[i].k = "ev" /\ tr[i].name \in {"closed", "rejected", "unresponsive"})
                                     /\ ~(tr[i].k = "rd" /\ tr[i].what \in {"error", "boom"})
      \* by the server's own frame order: Pings that were delivered before the server's Close frame (all of them if it sent none)
      dfs == DeliveredFrames(tr)
      srvClose == FirstIdx(dfs, LAMBDA f : f.op = OpClose)
      earlyPings == Len(SelectSeq(refPings, LAMBDA m : srvClose = 0 \/ m.at < srvClose))
      undisturbed == /\ quiet /\ ref.viol = 0
                     /\ \A i \in 1..Len(tr) : ~(tr[i].k = "wrf") /\ ~(tr[i].k = "call" /\ tr[i].m = "close")
  IN FirstFailing(<<
    \* (answerable() above follows the client's own write order; a client that writes its Close echo before it has answered an
    \* earlier Ping would make that Ping look unanswerable - so count against the server's frame order as well)
    <<"ping_before_the_servers_close_not_answered",
        ~(cfg.auto_pong /\ undisturbed) \/ Len(pongPos) = earlyPings>>,
    <<"pong_without_auto_pong", cfg.auto_pong \/ pongPos = <<>> >>,
    <<"number_of_pongs_differs_from_answerable_pings", ~cfg.auto_pong \/ Len(pongPos) = Len(expected)>>,
    <<"pong_payload_or_order_differs",
        ~cfg.auto_pong \/ Len(pongPos) # Len(expected) \/ \A k \in 1..Len(expected) : tr[pongPos[k]].pl = tr[expected[k]].pl>>,
    <<"pong_not_written_before_the_ping_event",
        ~cfg.auto_pong \/ Len(pongPos) # Len(expected) \/ \A k \in 1..Len(expected) : pongPos[k] < expected[k]>>,
    <<"pong_written_after_a_later_event",
        ~cfg.auto_pong \/ Len(pongPos) # Len(expected) \/
        \A k \in 1..Len(expected) : ~\E j \in (pongPos[k] + 1)..(expected[k] - 1) : tr[j].k \in {"ev", "call"}>>,
    <<"ping_received_but_not_handled", ~quiet \/ ref.viol # 0 \/ Len(pingPos) = Len(refPings)>>,
    <<"failed_pong_disturbs_event_stream", ~Has(x, "tw") \/ EvNames(x.tw) = EvNames(tr)>>
  >>)
PrefixOK(tr) == TRUE
=============================================================================
