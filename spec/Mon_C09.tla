----------------------------- MODULE Mon_C09 -----------------------------
(* C09: transport failures become events, never exceptions or hangs.                                   *)
EXTENDS MonCommon

IsEv(r, names)  == r.k = "ev" /\ r.name \in names
Verdict(tr) ==
  LET n == Len(tr)
      cfg == CfgOf(tr)
      evs == Events(tr)
      term == IF evs = <<>> THEN [name |-> "none"] ELSE Last(evs)
      connected == \E i \in 1..n : IsEv(tr[i], {"connected"})
      handshakeStarted ==       \* either side had started the closing handshake (or the upgrade was refused)
        \E i \in 1..n : \/ (tr[i].k \in {"wr", "wrf"} /\ Has(tr[i], "op") /\ tr[i].op = OpClose)
                        \/ IsCloseCall(tr[i])
                        \/ IsEv(tr[i], {"closing", "closed", "rejected"})
      \* one attempt per resolved address: a connect call, or a socket that could not even be created
      connects == SelectSeq(tr, LAMBDA r : r.k = "sock" /\ r.op \in {"connect", "create_fail"})
      allRefused == connects # <<>> /\ \A i \in 1..Len(connects) : connects[i].op = "create_fail" \/ connects[i].res = "refused"
      endr == Last(tr)
  IN FirstFailing(<<
    <<"exception_escaped_the_iterator", \A i \in 1..n : tr[i].k # "escape">>,
    <<"iterator_waits_forever", \A i \in 1..n : tr[i].k # "hang">>,
    <<"no_terminal_event", term.name \in {"connect_fail", "disconnected"}>>,
    <<"connect_fail_after_connected_or_disconnected_before", (term.name = "connect_fail") = ~connected>>,
    <<"graceful_without_closing_handshake", term.name # "disconnected" \/ handshakeStarted \/ ~term.graceful>>,
    <<"not_every_address_tried", ~allRefused \/ Len(connects) = cfg.naddr>>,
    <<"application_send_raised_non_websocket_error",
        \* (a close() refused with ValueError for an unsendable reason never touched the transport)
        \A i \in 1..n : tr[i].k = "call" /\ tr[i].res # "ok" =>
            tr[i].wserr \/ (tr[i].m = "close" /\ tr[i].res = "ValueError" /\ tr[i].nwr = 0 /\ tr[i].nwrf = 0)>>,
    <<"socket_left_open", endr.k = "end" /\ \A i \in 1..Len(endr.socks) : endr.socks[i].closed \/ (~endr.socks[i].handed /\ ~endr.socks[i].alive)>>,
    <<"iteration_did_not_stop", \E i \in 1..n : tr[i].k = "stop">>
  >>)
PrefixOK(tr) == TRUE
=============================================================================
