------------------------------ MODULE Lomond ------------------------------
(* Algorithmic model of one lomond connection: session.run() + WebSocket.feed/close/_on_close/send_*  *)
(* + stream/frame parser at frame granularity, together with its environment (server, network,        *)
(* clock) and the application (reactions to events).  One action per region of code between two        *)
(* interactions with the outside world.  `obs` is the observation history in the same record format    *)
(* the harness records from the real code; `script` is the environment/application behaviour in the    *)
(* harness's scenario language, so that every behaviour of this model can be replayed into the code.   *)
EXTENDS Naturals, Integers, Sequences, FiniteSets, TLC, Wire

CONSTANTS
  HttpItems,   \* replies the server may give to the upgrade request (records with t = "http")
  Items,       \* frames (records with t = "f") and [t |-> "part"] the server may send afterwards
  MaxItems,    \* bound on the number of stream items after the HTTP reply
  ChunkMax,    \* bound on the number of items delivered by one read
  MaxIdle,     \* bound on the number of waits that time out
  Dts,         \* clock advances (ticks) a wait may take
  Faults,      \* subset of {"dns","refused","reqwrite","recv_error","recv_boom","wait_raise","write_error"}
  NAddr,       \* number of addresses the host resolves to
  Reacts,      \* application reactions explored: subset of {"none","send","ping","close"}
  ReactAt,     \* event names at which reactions other than "none" are explored
  MaxReacts,   \* bound on the number of such reactions
  AbandonAt,   \* event names at which the application may abandon the iterator (C13)
  Conforming,  \* TRUE: the server only produces RFC 6455 conforming frame sequences
  AfterClose,  \* TRUE: the server may keep sending after its own Close frame (RFC 6455 forbids it)
  Cfg          \* [poll, ping_rate, ping_timeout, close_timeout, auto_pong]; 0 stands for None/disabled

VARIABLES pc, ret, L, E, inq, fk, obs, script
vars == <<pc, ret, L, E, inq, fk, obs, script>>

\* ---------------------------------------------------------------------------------------------------
LInit == [sock |-> "none", closing |-> FALSE, closed |-> FALSE, ready |-> FALSE, parsed |-> FALSE,
          frags |-> <<>>, u8 |-> U8Start, istext |-> FALSE, sentClose |-> -1, pollStart |-> -1,
          nextPing |-> 0, lastPong |-> 0, startT |-> -1, sel |-> "none"]
EInit == [clock |-> 0, nItems |-> 0, nIdle |-> 0, nReacts |-> 0, srvOpen |-> "none", srvU8 |-> U8Start,
          srvClosed |-> FALSE, partial |-> FALSE, sentHttp |-> FALSE, nev |-> 0, ic |-> 0, pdt |-> 0, silent |-> FALSE, srvAcc |-> PVEmpty, spos |-> 0, fpos |-> 0]
SInit == [dns |-> "ok", net |-> <<>>, writes |-> <<>>, stream |-> <<>>, steps |-> <<>>, react |-> <<>>]

Init == /\ pc = "start" /\ ret = <<>> /\ L = LInit /\ E = EInit /\ inq = <<>> /\ fk = "none"
        /\ obs = <<>> /\ script = SInit

SessionTime == IF L.ready THEN E.clock - L.startT ELSE 0

\* ---- observation records --------------------------------------------------------------------------
EvRec(name, extra) == [k |-> "ev", name |-> name, i |-> E.nev, t |-> E.clock] @@ extra
WrFrame(op, v)     == [k |-> "wr", what |-> "frame", op |-> op, pl |-> v, t |-> E.clock]
CallRec(m, res, wserr, nwr, extra) == [k |-> "call", m |-> m, res |-> res, wserr |-> wserr, nwr |-> nwr, at |-> E.nev - 1] @@ extra @@ [nwrf |-> 0]
Goodbye == <<103, 111, 111, 100, 98, 121, 101>>
SockClose          == [k |-> "sock", op |-> "close"]
CloseSockObs(LL)   == IF LL.sock = "open" THEN <<SockClose>> ELSE <<>>

\* yield an event: control passes to the application; `cont` is where the generator resumes
Yield(o, name, extra, cont) ==
  /\ obs' = Append(o, EvRec(name, extra))
  /\ E' = [E EXCEPT !.nev = @ + 1]
  /\ pc' = "yielded"
  /\ ret' = <<cont>> \o ret
YieldE(o, e2, name, extra, cont) ==        \* same, with other changes to E
  /\ obs' = Append(o, [EvRec(name, extra) EXCEPT !.t = e2.clock])
  /\ E' = [e2 EXCEPT !.nev = @ + 1]
  /\ pc' = "yielded"
  /\ ret' = <<cont>> \o ret
Return == pc' = Head(ret) /\ ret' = Tail(ret)
YieldR(o, name, extra, newret) ==          \* yield with an explicit continuation stack
  /\ obs' = Append(o, EvRec(name, extra))
  /\ E' = [E EXCEPT !.nev = @ + 1]
  /\ pc' = "yielded"
  /\ ret' = newret
NoX == [k |-> "ev"]

\* ---- writes ---------------------------------------------------------------------------------------
Refusal(LL) == IF LL.sock # "open" THEN "WebSocketUnavailable"
               ELSE IF LL.closed THEN "WebSocketClosed"
               ELSE IF LL.closing THEN "WebSocketClosing" ELSE "go"
WriteOutcomes == {"ok"} \cup (IF "write_error" \in Faults THEN {"error"} ELSE {})
WOut(LL) == IF Refusal(LL) = "go" THEN WriteOutcomes ELSE {"refused"}
\* observation and script effect of one library/application write with outcome w
WrObs(w, op, v)  == IF w = "ok" THEN <<WrFrame(op, v)>> ELSE IF w = "error" THEN <<[k |-> "wrf", op |-> op]>> ELSE <<>>
WrScript(s, w)   == IF w = "refused" THEN s ELSE [s EXCEPT !.writes = Append(@, w)]

\* ---- the server (environment) ---------------------------------------------------------------------
FrameKind(f, open) == IF f.op = 0 THEN open ELSE IF f.op = 1 THEN "text" ELSE IF f.op = 2 THEN "bin" ELSE "ctl"
ConformingFrame(f, e) ==
  /\ FrameViolation(f, FALSE) = "ok"
  /\ ~e.srvClosed
  /\ f.op \in {1, 2} => e.srvOpen = "none"
  /\ f.op = 0 => e.srvOpen # "none"
  /\ FrameKind(f, e.srvOpen) = "text" =>
       /\ PVIsSmall(f.pl)
       /\ LET s2 == U8Run(IF f.op = 1 THEN U8Start ELSE e.srvU8, f.pl.s) IN
          s2 # U8Dead /\ (f.fin = 1 => s2 = <<>>)
  /\ f.op = OpClose => LET c == ParseClose(f.pl) IN c.ok /\ (c.code = -1 \/ CloseCodeClass(c.code) = "must_accept")
LegalItem(it, e) ==
  /\ e.sentHttp /\ ~e.partial
  /\ AfterClose \/ ~e.srvClosed
  /\ it.t = "f" /\ Conforming => ConformingFrame(it, e)
  /\ it.t = "part" => ~Conforming
\* payload of the data message a frame belongs to, up to and including that frame (plain concatenation)
AccAfter(it, e) == IF it.t # "f" \/ IsControl(it.op) THEN e.srvAcc
                   ELSE IF it.op # OpCont THEN it.pl
                   ELSE IF PVIsSmall(e.srvAcc) /\ PVIsSmall(it.pl) THEN PVCat(e.srvAcc, it.pl)
                   ELSE [n |-> <<(PVLen(e.srvAcc) + PVLen(it.pl)) \div 65536, (PVLen(e.srvAcc) + PVLen(it.pl)) % 65536>>, s |-> <<>>, h |-> "cat"]
\* wire length of an item in bytes (the HTTP reply is not counted: offsets are relative to its end)
HdrLen(f) == 2 + (IF f.ann = "huge" THEN 8 ELSE IF PVLen(f.pl) < 126 THEN 0 ELSE IF PVLen(f.pl) < 65536 THEN 2 ELSE 8) + (IF f.mask THEN 4 ELSE 0)
ItemLen(it) == IF it.t = "f" THEN HdrLen(it) + PVLen(it.pl) ELSE IF it.t = "part" THEN 1 ELSE 0
WithAcc(it, e) == IF it.t = "f" THEN it @@ [acc |-> AccAfter(it, e), off |-> e.spos + HdrLen(it), end |-> e.spos + ItemLen(it)] ELSE it
SrvAfter(it, e) ==      \* server-side bookkeeping after sending an item
  IF it.t = "part" THEN [e EXCEPT !.partial = TRUE, !.nItems = @ + 1, !.spos = @ + 1]
  ELSE LET kind == FrameKind(it, e.srvOpen) IN
    [e EXCEPT !.nItems = @ + 1, !.srvAcc = AccAfter(it, e), !.spos = @ + ItemLen(it),
              !.srvClosed = @ \/ it.op = OpClose,
              !.srvOpen = IF kind = "ctl" THEN @ ELSE IF it.fin = 1 THEN "none" ELSE kind,
              !.srvU8 = IF kind = "text" /\ PVIsSmall(it.pl) THEN U8Run(IF it.op = 1 THEN U8Start ELSE @, it.pl.s) ELSE @]

\* ---------------------------------------------------------------------------------------------------
\* session.run(): Connecting, connect, request
CfgRec == [k |-> "cfg", poll |-> Cfg.poll, ping_rate |-> Cfg.ping_rate, ping_timeout |-> Cfg.ping_timeout,
           close_timeout |-> Cfg.close_timeout, auto_pong |-> Cfg.auto_pong, naddr |-> NAddr, compress |-> FALSE]
Start == /\ pc = "start"
         /\ Yield(<<CfgRec>>, "connecting", NoX, "connect")
         /\ UNCHANGED <<L, inq, fk, script>>

Connect ==
  /\ pc = "connect"
  /\ \/ /\ "dns" \in Faults
        /\ script' = [script EXCEPT !.dns = "fail"]
        /\ Yield(obs, "connect_fail", NoX, "fin")
        /\ UNCHANGED <<L, inq, fk>>
     \/ \E r \in 0..NAddr :          \* r addresses refuse the connection first
        /\ r > 0 => "refused" \in Faults
        /\ LET refused == [i \in 1..r |-> "refused"]
               robs == [i \in 1..(2 * r) |-> IF i % 2 = 1 THEN [k |-> "sock", op |-> "connect", res |-> "refused"] ELSE SockClose]
           IN IF r = NAddr
              THEN /\ script' = [script EXCEPT !.net = refused]
                   /\ Yield(obs \o robs, "connect_fail", NoX, "fin")
                   /\ UNCHANGED <<L, inq, fk>>
              ELSE /\ script' = [script EXCEPT !.net = refused \o <<"ok">>]
                   /\ obs' = obs \o robs \o <<[k |-> "sock", op |-> "connect", res |-> "ok"]>>
                   /\ L' = [L EXCEPT !.sock = "open"]
                   /\ pc' = "sendreq"
                   /\ UNCHANGED <<ret, E, inq, fk>>

SendRequest ==
  /\ pc = "sendreq"
  /\ IF L.closing
     THEN \* close() was called before the socket existed: the request write is refused
          /\ L' = [L EXCEPT !.sock = "gone"]
          /\ Yield(obs \o <<SockClose>>, "connect_fail", NoX, "fin")
          /\ UNCHANGED <<inq, fk, script>>
     ELSE \E w \in {"ok"} \cup (IF "reqwrite" \in Faults THEN {"error"} ELSE {}) :
          /\ script' = [script EXCEPT !.writes = Append(@, w)]
          /\ IF w = "ok"
             THEN /\ Yield(Append(obs, [k |-> "wr", what |-> "request", t |-> E.clock]), "connected", NoX, "mksel")
                  /\ UNCHANGED <<L, inq, fk>>
             ELSE /\ L' = [L EXCEPT !.sock = "gone"]
                  /\ Yield(obs \o <<[k |-> "wrf", op |-> -1], SockClose>>, "connect_fail", NoX, "fin")
                  /\ UNCHANGED <<inq, fk>>

MakeSelector ==
  /\ pc = "mksel"
  /\ L' = [L EXCEPT !.sel = "open"]
  /\ pc' = "looptest"
  /\ UNCHANGED <<ret, E, inq, fk, obs, script>>

LoopTest ==
  /\ pc = "looptest"
  /\ pc' = IF L.closed THEN "exit_graceful" ELSE "wait"
  /\ UNCHANGED <<ret, L, E, inq, fk, obs, script>>

\* ---- selector.wait(): the environment decides what happens next -----------------------------------
\* a time-out is armed: the connection will be ended by the library even if the server stays silent for ever
\* (the timers only run once the connection is Ready)
Armed == L.ready /\ (\/ Cfg.close_timeout # 0 /\ L.sentClose # -1
                     \/ Cfg.ping_timeout # 0)

Wait ==
  /\ pc = "wait"
  /\ IF E.silent
     THEN \* the server has gone silent for good: every wait times out after the poll interval
          /\ E' = [E EXCEPT !.clock = @ + Cfg.poll]
          /\ pc' = "reg_poll" /\ ret' = <<"looptest">> \o ret
          /\ UNCHANGED <<L, inq, fk, obs, script>>
     ELSE
     \/ /\ Armed
        /\ E' = [E EXCEPT !.clock = @ + Cfg.poll, !.silent = TRUE]
        /\ script' = [script EXCEPT !.steps = Append(@, [kind |-> "silence", dt |-> Cfg.poll])]
        /\ pc' = "reg_poll" /\ ret' = <<"looptest">> \o ret
        /\ UNCHANGED <<L, inq, fk, obs>>
     \/ \E dt \in {Cfg.poll} :     \* nothing arrives: the selector times out after the poll interval
        /\ E.nIdle < MaxIdle /\ dt > 0
        /\ E' = [E EXCEPT !.clock = @ + dt, !.nIdle = @ + 1]
        /\ script' = [script EXCEPT !.steps = Append(@, [kind |-> "timeout", dt |-> dt])]
        /\ pc' = "reg_poll" /\ ret' = <<"looptest">> \o ret
        /\ UNCHANGED <<L, inq, fk, obs>>
     \/ \E dt \in Dts :           \* the HTTP reply arrives
        /\ ~E.sentHttp
        /\ \E h \in HttpItems :
             /\ E' = [E EXCEPT !.clock = @ + dt, !.sentHttp = TRUE, !.pdt = dt]
             /\ inq' = <<h>>
             /\ script' = [script EXCEPT !.stream = Append(@, h)]
        /\ pc' = "chunk" /\ UNCHANGED ret
        /\ UNCHANGED <<L, fk, obs>>
     \/ \E dt \in Dts : \E it \in Items :     \* data arrives
        /\ E.sentHttp /\ E.nItems < MaxItems /\ LegalItem(it, E)
        /\ E' = [SrvAfter(it, E) EXCEPT !.clock = @ + dt, !.pdt = dt]
        /\ inq' = <<WithAcc(it, E)>>
        /\ script' = [script EXCEPT !.stream = Append(@, it)]
        /\ pc' = "chunk" /\ UNCHANGED ret
        /\ UNCHANGED <<L, fk, obs>>
     \/ \E dt \in Dts : \E kind \in {"eof"} \cup (IF "recv_error" \in Faults THEN {"error"} ELSE {})
                                            \cup (IF "recv_boom" \in Faults THEN {"boom"} ELSE {}) :
        /\ E' = [E EXCEPT !.clock = @ + dt]
        /\ script' = [script EXCEPT !.steps = Append(@, [kind |-> kind, dt |-> dt])]
        /\ inq' = <<[t |-> kind]>>
        /\ pc' = "reg_poll" /\ ret' = <<"recv">> \o ret
        /\ UNCHANGED <<L, fk, obs>>
     \/ /\ "wait_raise" \in Faults
        /\ script' = [script EXCEPT !.steps = Append(@, [kind |-> "wait_raise", dt |-> 0])]
        /\ pc' = "exit_error"
        /\ UNCHANGED <<ret, L, E, inq, fk, obs>>

\* more items may share the read (all legal continuations), then the read is closed
Chunk ==
  /\ pc = "chunk"
  /\ \/ \E it \in Items :
        /\ Len(inq) < ChunkMax /\ E.nItems < MaxItems /\ LegalItem(it, E)
        /\ E' = SrvAfter(it, E)
        /\ inq' = Append(inq, WithAcc(it, E))
        /\ script' = [script EXCEPT !.stream = Append(@, it)]
        /\ UNCHANGED <<pc, ret, L, fk, obs>>
     \/ /\ script' = [script EXCEPT !.steps = Append(@, [kind |-> "data", dt |-> E.pdt, items |-> Len(inq)])]
        /\ pc' = "reg_poll" /\ ret' = <<"recv">> \o ret
        /\ UNCHANGED <<L, E, inq, fk, obs>>

\* ---- _regular(): poll, auto-ping, ping time-out, close time-out -----------------------------------
RegPoll ==
  /\ pc = "reg_poll"
  /\ IF ~L.ready THEN Return /\ UNCHANGED <<L, E, inq, fk, obs, script>>
     ELSE LET st == SessionTime IN
          IF L.pollStart = -1 \/ st - L.pollStart >= Cfg.poll
          THEN /\ L' = [L EXCEPT !.pollStart = st]
               /\ Yield(obs, "poll", NoX, "reg_ping")
               /\ UNCHANGED <<inq, fk, script>>
          ELSE /\ pc' = "reg_ping" /\ UNCHANGED <<ret, L, E, inq, fk, obs, script>>

RegPing ==
  /\ pc = "reg_ping"
  /\ LET st == SessionTime IN
     IF Cfg.ping_rate # 0 /\ st > L.nextPing
     THEN \E w \in WOut(L) :
          /\ L' = [L EXCEPT !.nextPing = ((st + Cfg.ping_rate - 1) \div Cfg.ping_rate) * Cfg.ping_rate]
          /\ obs' = obs \o WrObs(w, OpPing, PVEmpty)
          /\ script' = WrScript(script, w)
          /\ pc' = "reg_pto"
          /\ UNCHANGED <<ret, E, inq, fk>>
     ELSE pc' = "reg_pto" /\ UNCHANGED <<ret, L, E, inq, fk, obs, script>>

RegPingTimeout ==
  /\ pc = "reg_pto"
  /\ IF Cfg.ping_timeout # 0 /\ SessionTime - L.lastPong > Cfg.ping_timeout
     THEN /\ Yield(obs, "unresponsive", NoX, "exit_force")
          /\ UNCHANGED <<L, inq, fk, script>>
     ELSE pc' = "reg_cto" /\ UNCHANGED <<ret, L, E, inq, fk, obs, script>>

RegCloseTimeout ==
  /\ pc = "reg_cto"
  /\ IF Cfg.close_timeout # 0 /\ L.sentClose # -1 /\ SessionTime >= L.sentClose + Cfg.close_timeout
     THEN pc' = "exit_force" /\ UNCHANGED <<ret, L, E, inq, fk, obs, script>>
     ELSE Return /\ UNCHANGED <<L, E, inq, fk, obs, script>>

SrvRec(it, idx) ==
  IF it.t = "f" THEN [k |-> "srv", i |-> idx, it |-> "f", op |-> it.op, fin |-> it.fin, rsv1 |-> it.rsv1, rsv2 |-> it.rsv2,
                      rsv3 |-> it.rsv3, mask |-> it.mask, pl |-> it.pl, acc |-> it.acc, ann |-> it.ann, off |-> it.off, end |-> it.end]
  ELSE [k |-> "srv", i |-> idx, it |-> it.t]

\* ---- recv -----------------------------------------------------------------------------------------
Recv ==
  /\ pc = "recv"
  /\ LET h == Head(inq) IN
     IF h.t = "eof"
     THEN /\ obs' = Append(obs, [k |-> "rd", what |-> "eof"])
          /\ pc' = IF ~L.closing /\ ~L.closed THEN "exit_sockfail" ELSE "exit_graceful"
          /\ inq' = <<>> /\ UNCHANGED <<ret, L, E, fk, script>>
     ELSE IF h.t = "error"
     THEN /\ obs' = Append(obs, [k |-> "rd", what |-> "error"])
          /\ pc' = "exit_sockfail" /\ inq' = <<>> /\ UNCHANGED <<ret, L, E, fk, script>>
     ELSE IF h.t = "boom"
     THEN /\ obs' = Append(obs, [k |-> "rd", what |-> "boom"])
          /\ pc' = "exit_error" /\ inq' = <<>> /\ UNCHANGED <<ret, L, E, fk, script>>
     ELSE LET RECURSIVE Bytes(_) Bytes(j) == IF j > Len(inq) THEN 0 ELSE ItemLen(inq[j]) + Bytes(j + 1) IN
          /\ E' = [E EXCEPT !.ic = @ + Len(inq), !.fpos = @ + Bytes(1)]
          /\ obs' = obs \o [j \in 1..Len(inq) |-> SrvRec(inq[j], E.ic + j - 1)]
                        \o <<[k |-> "rd", what |-> "data", ic |-> E.ic + Len(inq), fpos |-> E.fpos + Bytes(1)]>>
          /\ pc' = IF L.closed THEN "looptest" ELSE "feednext"
          /\ inq' = IF L.closed THEN <<>> ELSE inq
          /\ UNCHANGED <<ret, L, fk, script>>

\* ---- WebSocket.feed(): one message at a time ------------------------------------------------------
LibInvalidCloseCodes == (0..999) \cup {1004, 1005, 1006, 1014, 1015} \cup (1016..2999)

MsgPayload(frames) ==
  IF \A i \in 1..Len(frames) : PVIsSmall(frames[i].pl)
  THEN PV(LET RECURSIVE Cat(_) Cat(i) == IF i > Len(frames) THEN <<>> ELSE frames[i].pl.s \o Cat(i + 1) IN Cat(1))
  ELSE LET RECURSIVE Sum(_) Sum(i) == IF i > Len(frames) THEN 0 ELSE PVLen(frames[i].pl) + Sum(i + 1)
       IN IF Len(frames) = 1 THEN frames[1].pl ELSE [n |-> <<Sum(1) \div 65536, Sum(1) % 65536>>, s |-> <<>>, h |-> "cat"]

\* What processing one frame amounts to: [res, ...] with res in
\*   "err" (crit), "frag" (stored), "msg" (op, pl), and the parser state afterwards (u8, istext, frags)
FrameStep(f) ==
  LET hv == IF f.ann = "huge" THEN "too_large"
            ELSE IF IsControl(f.op) /\ PVLen(f.pl) > 125 THEN "control_too_long"
            ELSE IF f.rsv1 = 1 \/ f.rsv2 = 1 \/ f.rsv3 = 1 THEN "reserved_bits"
            ELSE IF f.op \in ReservedOps THEN "reserved_opcode"
            ELSE IF IsControl(f.op) /\ f.fin = 0 THEN "fragmented_control"
            ELSE "ok"
      istext1 == L.istext \/ f.op = OpText
      validates == (f.op = OpText \/ (f.op = OpCont /\ istext1)) /\ PVIsSmall(f.pl)
      u81 == IF validates THEN U8Run(L.u8, f.pl.s) ELSE L.u8
      u82 == IF f.fin = 1 /\ f.op \in {OpText, OpCont} THEN U8Start ELSE u81
      istext2 == IF f.fin = 1 /\ ~IsControl(f.op) THEN FALSE ELSE istext1
      base == [res |-> "err", crit |-> FALSE, u8 |-> u82, istext |-> istext2, frags |-> L.frags, op |-> 0, pl |-> PVEmpty]
  IN
  IF hv # "ok" THEN base
  ELSE IF validates /\ u81 = U8Dead THEN [base EXCEPT !.crit = TRUE]
  ELSE IF f.mask THEN base
  ELSE IF IsControl(f.op) THEN [base EXCEPT !.res = "msg", !.op = f.op, !.pl = f.pl]
  ELSE IF f.op = OpCont /\ L.frags = <<>> THEN base
  ELSE IF f.op # OpCont /\ L.frags # <<>> THEN base
  ELSE LET fs == Append(L.frags, f) IN
       IF f.fin = 0 THEN [base EXCEPT !.res = "frag", !.frags = fs]
       ELSE [base EXCEPT !.res = "msg", !.frags = <<>>, !.op = fs[1].op, !.pl = MsgPayload(fs)]

\* protocol error: event, then (non-critical only) a Close frame, then forced disconnect
ProtoError(crit) ==
  YieldR(obs, "protocol_error", [critical |-> crit], <<"reg_poll", IF crit THEN "exit_force" ELSE "err_close">> \o ret)

FeedNext ==
  /\ pc = "feednext"
  /\ IF inq = <<>> \/ L.closed THEN pc' = "looptest" /\ inq' = <<>> /\ UNCHANGED <<ret, L, E, fk, obs, script>>
     ELSE LET it == Head(inq) IN
       /\ inq' = Tail(inq)
       /\ IF it.t = "part" THEN UNCHANGED <<pc, ret, L, E, fk, obs, script>>
          ELSE IF it.t = "http" THEN
            IF it.v = "ok"
            THEN /\ L' = [L EXCEPT !.parsed = TRUE, !.ready = TRUE, !.startT = E.clock, !.lastPong = 0, !.nextPing = 0]
                 /\ YieldR(obs, "ready", NoX, <<"reg_poll", "feednext">> \o ret)
                 
                 /\ UNCHANGED <<fk, script>>
            ELSE IF it.v = "big"
            THEN /\ ProtoError(TRUE) /\ UNCHANGED <<L, fk, script>>
            ELSE /\ L' = [L EXCEPT !.parsed = TRUE, !.sock = "gone", !.closing = FALSE, !.closed = TRUE]
                 /\ YieldR(obs \o CloseSockObs(L), "rejected", NoX, <<"reg_poll", "looptest">> \o ret)
                 
                 /\ UNCHANGED <<fk, script>>
          ELSE \* a frame
            LET r == FrameStep(it) IN
            IF r.res = "err" THEN
                 /\ L' = [L EXCEPT !.u8 = r.u8, !.istext = r.istext]
                 /\ ProtoError(r.crit) /\ UNCHANGED <<fk, script>>
            ELSE IF r.res = "frag" THEN
                 /\ L' = [L EXCEPT !.u8 = r.u8, !.istext = r.istext, !.frags = r.frags]
                 /\ UNCHANGED <<pc, ret, E, fk, obs, script>>
            ELSE \* a complete message
              LET L1 == [L EXCEPT !.u8 = r.u8, !.istext = r.istext, !.frags = r.frags] IN
              IF r.op = OpText THEN
                   IF PVIsSmall(r.pl) /\ ~WellFormed(r.pl.s)
                   THEN /\ L' = L1 /\ ProtoError(TRUE) /\ UNCHANGED <<fk, script>>
                   ELSE /\ L' = L1
                        /\ YieldR(obs, "text", [pl |-> r.pl, cps |-> IF PVIsSmall(r.pl) THEN Decode(r.pl.s) ELSE <<>>, isstr |-> TRUE, stable |-> TRUE], <<"reg_poll", "feednext">> \o ret)
                         /\ UNCHANGED <<fk, script>>
              ELSE IF r.op = OpBin THEN
                   /\ L' = L1
                   /\ YieldR(obs, "binary", [pl |-> r.pl, isbytes |-> TRUE, stable |-> TRUE], <<"reg_poll", "feednext">> \o ret)
                    /\ UNCHANGED <<fk, script>>
              ELSE IF r.op = OpPong THEN
                   /\ L' = [L1 EXCEPT !.lastPong = SessionTime]
                   /\ YieldR(obs, "pong", [pl |-> r.pl, isbytes |-> TRUE, stable |-> TRUE], <<"reg_poll", "feednext">> \o ret)
                    /\ UNCHANGED <<fk, script>>
              ELSE IF r.op = OpPing THEN
                   \E w \in (IF Cfg.auto_pong THEN WOut(L1) ELSE {"refused"}) :
                   /\ L' = L1
                   /\ script' = WrScript(script, w)
                   /\ YieldR(obs \o WrObs(w, OpPong, r.pl), "ping", [pl |-> r.pl, isbytes |-> TRUE, stable |-> TRUE], <<"reg_poll", "feednext">> \o ret)
                    /\ UNCHANGED <<fk>>
              ELSE \* Close
                LET c == ParseClose(r.pl) IN
                IF ~c.ok THEN /\ L' = L1 /\ ProtoError(c.why = "close_reason_utf8") /\ UNCHANGED <<fk, script>>
                ELSE IF c.code \in LibInvalidCloseCodes THEN /\ L' = L1 /\ ProtoError(FALSE) /\ UNCHANGED <<fk, script>>
                ELSE IF L1.closing
                THEN /\ L' = L1
                     /\ YieldR(obs, "closed", [code |-> c.code, reason |-> PV(c.reason), stable |-> TRUE], <<"reg_poll", "close_fin">> \o ret)
                      /\ UNCHANGED <<fk, script>>
                ELSE /\ L' = L1
                     /\ fk' = r.pl
                     /\ YieldR(obs, "closing", [code |-> c.code, reason |-> PV(c.reason), stable |-> TRUE], <<"reg_poll", "close_echo">> \o ret)
                      /\ UNCHANGED <<script>>

CloseFin ==     \* _on_close resumes after Closed was yielded
  /\ pc = "close_fin"
  /\ L' = [L EXCEPT !.closing = FALSE, !.closed = TRUE]
  /\ pc' = "feednext"
  /\ UNCHANGED <<ret, E, inq, fk, obs, script>>

CloseEcho ==    \* _on_close resumes after Closing was yielded: echo unless the application closed meanwhile
  /\ pc = "close_echo"
  /\ IF L.closed \/ L.closing
     THEN /\ L' = [L EXCEPT !.closing = TRUE] /\ pc' = "feednext" /\ fk' = "none"
          /\ UNCHANGED <<ret, E, inq, obs, script>>
     ELSE \E w \in WOut(L) :
          /\ L' = [L EXCEPT !.closing = TRUE, !.sentClose = SessionTime]
          /\ obs' = obs \o WrObs(w, OpClose, fk)
          /\ script' = WrScript(script, w)
          /\ pc' = "feednext" /\ fk' = "none"
          /\ UNCHANGED <<ret, E, inq>>

ErrClose ==     \* non-critical protocol error: close(1002, text) then forced disconnect
  /\ pc = "err_close"
  /\ IF L.closed \/ L.closing
     THEN pc' = "exit_force" /\ UNCHANGED <<ret, L, E, inq, fk, obs, script>>
     ELSE \E w \in WOut(L) :
          /\ L' = [L EXCEPT !.closing = TRUE, !.sentClose = SessionTime]
          /\ obs' = obs \o WrObs(w, OpClose, [n |-> <<0, 0>>, s |-> <<>>, h |-> "errtext"])
          /\ script' = WrScript(script, w)
          /\ pc' = "exit_force"
          /\ UNCHANGED <<ret, E, inq, fk>>

\* final state of the descriptors: one entry per socket that was handed to the session, one per selector
EndRec(sockst, selst) ==
  [k |-> "end", socks |-> IF sockst = "none" THEN <<>> ELSE <<[closed |-> sockst # "open", alive |-> FALSE, handed |-> TRUE]>>,
   sels |-> IF L.sel = "none" THEN <<>> ELSE <<[closed |-> (IF L.sel = "open" THEN selst = "closed" ELSE TRUE)]>>]

\* ---- loop exits -----------------------------------------------------------------------------------
ExitNonGraceful ==
  /\ pc \in {"exit_force", "exit_sockfail", "exit_error"}
  /\ L' = [L EXCEPT !.sock = IF @ = "open" THEN "gone" ELSE @]
  /\ YieldR(obs \o CloseSockObs(L), "disconnected", [graceful |-> FALSE], <<"fin">>)
  /\ inq' = <<>> /\ UNCHANGED <<fk, script>>

ExitGraceful ==
  /\ pc = "exit_graceful"
  /\ L' = [L EXCEPT !.sock = IF @ = "open" THEN "gone" ELSE @]
  /\ YieldR(obs \o CloseSockObs(L), "disconnected", [graceful |-> TRUE], <<"fin">>)
  /\ inq' = <<>> /\ UNCHANGED <<fk, script>>

Finish ==
  /\ pc = "fin"
  /\ obs' = obs \o (IF L.sel = "open" THEN <<[k |-> "sel", op |-> "close"]>> ELSE <<>>) \o <<[k |-> "stop"], EndRec(L.sock, "closed")>>
  /\ L' = [L EXCEPT !.sel = IF @ = "open" THEN "closed" ELSE @]
  /\ pc' = "done"
  /\ UNCHANGED <<ret, E, inq, fk, script>>

\* ---- the application ------------------------------------------------------------------------------
LastEvent == LET evs == SelectSeq(obs, LAMBDA r : r.k = "ev") IN evs[Len(evs)]
ReactRec(a) == [at |-> E.nev - 1, call |-> a]

AppSend(m, op, v) ==
  LET rf == Refusal(L) IN
  IF rf # "go"
  THEN /\ obs' = Append(obs, CallRec(m, rf, TRUE, 0, [pl |-> v]))
       /\ UNCHANGED <<L>> /\ script' = [script EXCEPT !.react = Append(@, ReactRec(m))]
  ELSE \E w \in WriteOutcomes :
       /\ obs' = obs \o WrObs(w, op, v) \o <<CallRec(m, IF w = "ok" THEN "ok" ELSE "TransportFail", w # "ok", IF w = "ok" THEN 1 ELSE 0, [pl |-> v, nwrf |-> IF w = "ok" THEN 0 ELSE 1])>>
       /\ script' = [WrScript(script, w) EXCEPT !.react = Append(@, ReactRec(m))]
       /\ UNCHANGED <<L>>

AppClose ==
  IF L.closed \/ L.closing
  THEN /\ obs' = Append(obs, CallRec("close", "ok", FALSE, 0, [code |-> 1000, reason |-> PV(Goodbye)]))
       /\ script' = [script EXCEPT !.react = Append(@, ReactRec("close"))]
       /\ UNCHANGED L
  ELSE \E w \in WOut(L) :
       /\ obs' = obs \o WrObs(w, OpClose, PV(ClosePayload(1000, Goodbye)))
                     \o <<CallRec("close", "ok", FALSE, IF w = "ok" THEN 1 ELSE 0, [code |-> 1000, reason |-> PV(Goodbye), nwrf |-> IF w = "error" THEN 1 ELSE 0])>>
       /\ script' = [WrScript(script, w) EXCEPT !.react = Append(@, ReactRec("close"))]
       /\ L' = [L EXCEPT !.closing = TRUE, !.sentClose = SessionTime]

\* close() with a reason that does not fit in a control frame (124 bytes): refused with ValueError before anything
\* is written or changed (a no-op, as any close(), once the connection is closing or closed)
LongReason == [i \in 1..124 |-> 97 + (i % 26)]
AppBadClose ==
  /\ obs' = Append(obs, CallRec("close", IF L.closed \/ L.closing THEN "ok" ELSE "ValueError", FALSE, 0, [code |-> 1000, reason |-> PV(LongReason)]))
  /\ script' = [script EXCEPT !.react = Append(@, ReactRec("badclose"))]
  /\ UNCHANGED L

AppReact ==
  /\ pc = "yielded"
  /\ LET name == LastEvent.name IN
     \/ /\ Return /\ UNCHANGED <<L, E, inq, fk, obs, script>>
     \/ /\ name \in ReactAt /\ E.nReacts < MaxReacts
        /\ \E a \in Reacts \ {"none"} :
             /\ \/ a = "send"  /\ AppSend("send_text", OpText, PV(<<120>>))
                \/ a = "ping"  /\ AppSend("send_ping", OpPing, PV(<<>>))
                \/ a = "close" /\ AppClose
                \/ a = "badclose" /\ AppBadClose
             /\ E' = [E EXCEPT !.nReacts = @ + 1]
        /\ Return /\ UNCHANGED <<inq, fk>>
     \/ /\ name \in AbandonAt
        /\ obs' = obs \o <<[k |-> "abandon", at |-> E.nev - 1]>> \o CloseSockObs(L)
                      \o (IF L.sel = "open" THEN <<[k |-> "sel", op |-> "close"]>> ELSE <<>>)
                      \o <<EndRec("gone", "closed")>>
        /\ L' = [L EXCEPT !.sock = IF @ = "open" THEN "gone" ELSE @, !.sel = IF @ = "open" THEN "closed" ELSE @]
        /\ script' = [script EXCEPT !.react = Append(@, ReactRec("abandon"))]
        /\ pc' = "done" /\ ret' = <<>>
        /\ UNCHANGED <<E, inq, fk>>

Done == pc = "done" /\ UNCHANGED vars

Next == \/ Start \/ Connect \/ SendRequest \/ MakeSelector \/ LoopTest \/ Wait \/ Chunk
        \/ RegPoll \/ RegPing \/ RegPingTimeout \/ RegCloseTimeout \/ Recv \/ FeedNext
        \/ CloseFin \/ CloseEcho \/ ErrClose \/ ExitNonGraceful \/ ExitGraceful \/ Finish \/ AppReact

Spec == Init /\ [][Next]_vars
FairSpec == Spec /\ WF_vars(Next)

\* every behaviour of the library and its finite environment ends
Terminates == <>(pc = "done")
=============================================================================
