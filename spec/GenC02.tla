------------------------------ MODULE GenC02 ------------------------------
(* Server byte streams for C02: an HTTP reply (accepted / rejected / oversize, with or without         *)
(* permessage-deflate) followed by up to MaxFrames frames drawn from a mixed alphabet (valid, invalid, *)
(* fragmented with a split multi-byte character, compressed).  Each behaviour is one stream; the       *)
(* harness executes it under every cut set of the frame part and every single cut of the whole stream. *)
EXTENDS Naturals, Sequences, FiniteSets, TLC, Json, Wire
CONSTANTS MaxFrames
F(op, fin, pl) == [t |-> "f", op |-> op, fin |-> fin, rsv1 |-> 0, rsv2 |-> 0, rsv3 |-> 0, mask |-> FALSE, pl |-> PV(pl), ann |-> "len", z |-> FALSE]
Z(f) == [f EXCEPT !.rsv1 = 1, !.z = TRUE]          \* payload is deflated by the concretiser
Plain == { F(1, 1, <<97>>), F(1, 0, <<226, 130>>), F(0, 1, <<172>>), F(0, 0, <<>>), F(2, 1, <<0, 255>>), F(9, 1, <<7>>), F(10, 1, <<>>),
           F(8, 1, <<3, 232, 111>>), F(3, 1, <<>>), F(1, 1, <<255>>), F(0, 1, <<1>>), [F(2, 1, <<>>) EXCEPT !.ann = "huge"], [F(1, 1, <<97>>) EXCEPT !.mask = TRUE],
           F(9, 0, <<>>), F(8, 1, <<3>>), [F(1, 1, <<98>>) EXCEPT !.rsv2 = 1],
           F(1, 1, <<226, 65, 66>>), F(1, 0, <<226, 65, 66>>),
           [F(2, 1, <<>>) EXCEPT !.pl = PVBlob(20000, 1)], [F(2, 1, <<>>) EXCEPT !.pl = PVBlob(66000, 2)], F(1, 1, <<97, 240, 159, 65>>), F(1, 1, <<97, 226, 130, 172, 98>>) }
Comp == { Z(F(1, 1, <<104, 105, 104, 105, 104, 105>>)), Z(F(2, 0, <<1, 2, 3>>)), F(0, 1, <<>>), F(1, 1, <<97>>), F(9, 1, <<>>), [F(1, 1, <<3, 0>>) EXCEPT !.rsv1 = 1] }
Https == { [t |-> "http", v |-> "ok"], [t |-> "http", v |-> "rej"], [t |-> "http", v |-> "big"], [t |-> "http", v |-> "bigunterm"] }
HttpZ == [t |-> "http", v |-> "ok", ext |-> "permessage-deflate"]

Has0(h) == "ext" \in DOMAIN h
VARIABLES st, stream
Init == st = "init" /\ stream = <<>>
Next == \/ /\ st = "init" /\ \E h \in Https \cup {HttpZ} : stream' = <<h>> /\ st' = "frames"
        \/ /\ st = "frames" /\ Len(stream) <= MaxFrames
           /\ \E f \in (IF Has0(stream[1]) THEN Comp ELSE Plain) : stream' = Append(stream, f) /\ UNCHANGED st
        \/ /\ st = "frames" /\ st' = "done" /\ UNCHANGED stream
Spec == Init /\ [][Next]_<<st, stream>>
Script == [dns |-> "ok", net |-> <<"ok">>, writes |-> <<>>, stream |-> stream, steps |-> <<[kind |-> "data", dt |-> 0, items |-> Len(stream)]>>,
           react |-> <<>>, compress |-> Has0(stream[1])]
Emit == st = "done" => PrintT(ToJson([script |-> Script, obs |-> <<>>]))
=============================================================================
