----------------------------- MODULE Mon_C08 -----------------------------
(* C08: the closing handshake completes correctly in both directions (single-threaded histories,       *)
(* fault-free transport apart from the final EOF).                                                     *)
EXTENDS MonCommon

IsFrame(r, ops) == r.k = "wr" /\ r.what = "frame" /\ r.op \in ops
IsEv(r, names)  == r.k = "ev" /\ r.name \in names
SendCalls == {"send_text", "send_binary", "send_ping", "send_pong", "send_json"}

Verdict(tr) ==
  LET n == Len(tr)
      cfg == CfgOf(tr)
      ref == Ref(DeliveredFrames(tr), cfg.compress)
      closeFramePos == { i \in 1..n : IsFrame(tr[i], {OpClose}) }
      firstCloseFrame == IF closeFramePos = {} THEN 0 ELSE CHOOSE i \in closeFramePos : \A j \in closeFramePos : i <= j
      closeCallPos == { i \in 1..n : IsCloseCall(tr[i]) }
      closingPos == Pos(tr, LAMBDA r : IsEv(r, {"closing"}))
      closedPos  == Pos(tr, LAMBDA r : IsEv(r, {"closed"}))
      connectedPos == Pos(tr, LAMBDA r : IsEv(r, {"connected"}))
      \* the client had started closing before position p (frame written, failed, or close() called)
      clientClosing(p) == \E i \in 1..(p - 1) : IsFrame(tr[i], {OpClose}) \/ (tr[i].k = "wrf" /\ tr[i].op = OpClose)
                                               \/ IsCloseCall(tr[i])
      ended(p) == \E i \in 1..(p - 1) : IsEv(tr[i], {"disconnected", "connect_fail", "rejected", "closed", "protocol_error"})
      \* application close() on a connected, not yet closing WebSocket
      \* (the frames written by the call itself are recorded just before the call record)
      liveClose(c) == connectedPos # 0 /\ connectedPos < c /\ ~clientClosing(c - tr[c].nwr - tr[c].nwrf) /\ ~ended(c)
      clean == ref.viol = 0 /\ \A i \in 1..n : ~(tr[i].k \in {"wrf", "escape", "hang"}) /\ ~IsEv(tr[i], {"protocol_error", "unresponsive"})
                            /\ ~(tr[i].k = "rd" /\ tr[i].what \in {"error", "boom"})
      faultFree == \A i \in 1..n : ~(tr[i].k \in {"wrf", "escape", "hang"}) /\ ~(tr[i].k = "rd" /\ tr[i].what \in {"error", "boom"})
      refClose == SelectSeq(ref.msgs, LAMBDA m : m.op = OpClose)
      evs == Events(tr)
      appFirst == \E c \in closeCallPos : liveClose(c) /\ (closingPos = 0 \/ c < closingPos)
      eofAfter(p) == \E i \in (p + 1)..n : tr[i].k = "rd" /\ tr[i].what = "eof"
      sockClosed == \A i \in 1..Len(Last(tr).socks) : Last(tr).socks[i].closed
  IN FirstFailing(<<
    \* (every later clause is conditional on a clean history: a protocol error reported for a conforming stream must not excuse them)
    <<"protocol_error_on_a_conforming_stream",
        ~(ref.viol = 0 /\ faultFree) \/ \A i \in 1..n : ~IsEv(tr[i], {"protocol_error"})>>,
    <<"server_close_not_reported", ~(clean /\ refClose # <<>>) \/ closingPos # 0 \/ closedPos # 0>>,
    <<"more_than_one_close_frame", Cardinality(closeFramePos) <= 1>>,
    <<"data_frame_after_close_frame",
        firstCloseFrame = 0 \/ \A i \in (firstCloseFrame + 1)..n : ~IsFrame(tr[i], {OpCont, OpText, OpBin})>>,
    <<"close_call_did_not_write_the_given_close_frame",
        \A c \in closeCallPos : liveClose(c) =>
            /\ tr[c].nwr = 1 /\ c > 1 /\ IsFrame(tr[c - 1], {OpClose})
            /\ tr[c - 1].pl.s = ClosePayload(tr[c].code, tr[c].reason.s)>>,
    <<"send_after_close_not_refused",
        \A p \in 1..n : (tr[p].k = "call" /\ tr[p].m \in SendCalls /\ clientClosing(p)) =>
            tr[p].res # "ok" /\ tr[p].wserr /\ tr[p].nwr = 0>>,
    <<"send_during_closing_event_refused",
        \A p \in 1..n : (tr[p].k = "call" /\ tr[p].m \in SendCalls /\ closingPos # 0 /\ tr[p].at = tr[closingPos].i
                         /\ ~clientClosing(p) /\ clean) => tr[p].res = "ok" /\ tr[p].nwr = 1>>,
    \* client first, then the server's Close arrives
    <<"no_closed_event_for_server_reply",
        ~(clean /\ appFirst /\ refClose # <<>>) \/
        (closedPos # 0 /\ tr[closedPos].code = refClose[1].code /\ tr[closedPos].reason.s = refClose[1].reason)>>,
    <<"closed_not_followed_by_graceful_disconnected",
        ~(clean /\ closedPos # 0) \/
        ( /\ \A i \in (closedPos + 1)..n : tr[i].k = "ev" => tr[i].name \in {"poll", "disconnected"}
          /\ Last(evs).name = "disconnected" /\ Last(evs).graceful /\ sockClosed )>>,
    <<"messages_not_delivered_while_closing",
        ~(clean /\ appFirst) \/
        LET me == SelectSeq(MessageEvents(tr), LAMBDA e : e.name # "closing")
            upto == IF refClose = <<>> THEN ref.msgs ELSE SelectSeq(ref.msgs, LAMBDA m : m.at <= refClose[1].at)
        IN Len(me) = Len(upto) /\ \A i \in 1..Len(upto) : upto[i].z \/ EventMatches(me[i], upto[i])>>,
    \* server first
    <<"no_single_echo_after_closing",
        ~(clean /\ closingPos # 0) \/
        ( /\ Cardinality(closeFramePos) = 1 /\ firstCloseFrame > closingPos
          /\ LET appClose == { c \in closeCallPos : tr[c].at = tr[closingPos].i } IN
             IF appClose # {} THEN TRUE
             ELSE /\ tr[firstCloseFrame].pl.s = (IF tr[closingPos].code = -1 THEN <<>>
                        ELSE SubSeq(ClosePayload(tr[closingPos].code, tr[closingPos].reason.s), 1, Len(tr[firstCloseFrame].pl.s)))
                  /\ (tr[closingPos].code # -1 => Len(tr[firstCloseFrame].pl.s) >= 2) )>>,
    <<"not_graceful_after_server_close_and_eof",
        ~(clean /\ closingPos # 0 /\ eofAfter(closingPos)) \/
        (Last(evs).name = "disconnected" /\ Last(evs).graceful /\ sockClosed)>>
  >>)
PrefixOK(tr) == TRUE
=============================================================================
