"""C18 supplement: the real client against a real server over loopback TCP and TLS (real kernel buffers, real OpenSSL
record layer).  A sanity check of the transport model's premise, not the decision procedure: the only thing judged is the
coarse clause "nothing waits for the poll time-out" - every message that the server has written completely is delivered
long before the poll interval elapses.  Uses only the standard library; ports are ephemeral; the certificate is generated
into the per-run scratch directory."""
import os
import socket
import ssl
import struct
import subprocess
import sys
import threading
import time

from . import codec, tlc

POLL = 3.0            # the client's poll interval: a stalled message would wait about this long
LIMIT = 1.0           # a delivered message must not be later than this after the server finished writing it


def make_cert(d):
    key, crt = os.path.join(d, 'k.pem'), os.path.join(d, 'c.pem')
    p = subprocess.run(['openssl', 'req', '-x509', '-newkey', 'rsa:2048', '-nodes', '-keyout', key, '-out', crt, '-days', '2',
                        '-subj', '/CN=localhost'], stdout=subprocess.PIPE, stderr=subprocess.PIPE)
    if p.returncode != 0:
        return None
    return key, crt


class Server(threading.Thread):
    """Accepts one connection, answers the upgrade, then sends the scripted bursts; records when each burst was handed to the OS."""

    def __init__(self, bursts, tls_files=None):
        threading.Thread.__init__(self)
        self.daemon = True
        self.bursts = bursts
        self.sock = socket.socket()
        self.sock.bind(('127.0.0.1', 0))
        self.sock.listen(1)
        self.port = self.sock.getsockname()[1]
        self.tls_files = tls_files
        self.sent_at = []
        self.error = None

    def run(self):
        try:
            conn, _ = self.sock.accept()
            conn.setsockopt(socket.IPPROTO_TCP, socket.TCP_NODELAY, 1)
            if self.tls_files:
                ctx = ssl.SSLContext(ssl.PROTOCOL_TLS_SERVER)
                ctx.load_cert_chain(self.tls_files[1], self.tls_files[0])
                conn = ctx.wrap_socket(conn, server_side=True)
            data = b''
            while b'\r\n\r\n' not in data:
                chunk = conn.recv(4096)
                if not chunk:
                    return
                data += chunk
            req = codec.parse_http_request(data)
            key = [v for n, v in req['headers'] if n == 'sec-websocket-key'][0].encode()
            reply = (b'HTTP/1.1 101 Switching Protocols\r\nUpgrade: websocket\r\nConnection: Upgrade\r\nSec-WebSocket-Accept: '
                     + codec.accept_for(key) + b'\r\n\r\n')
            first = True
            for gap, frames in self.bursts:
                time.sleep(gap)
                payload = b''.join(frames)
                if first:
                    payload = reply + payload          # the reply shares its write (and record) with the first frames
                    first = False
                conn.sendall(payload)                   # one write: one TCP burst / as few TLS records as possible
                self.sent_at.append(time.time())
            time.sleep(0.3)
            try:
                conn.sendall(codec.encode_frame(8, struct.pack('!H', 1000)))
                conn.settimeout(2)
                conn.recv(1024)
            except OSError:
                pass
            conn.close()
        except Exception as e:       # pragma: no cover
            self.error = repr(e)
        finally:
            self.sock.close()


def text(i, n=0):
    return codec.encode_frame(1, (b'%06d' % i) + b'x' * n)


def scenarios():
    out = []
    # many small frames per record / segment; bursts around the 16 KiB record and 64 KiB buffer sizes; a pause between bursts
    out.append(('many-small-frames', [(0.0, [text(i) for i in range(1000)]), (0.4, [text(1000 + i) for i in range(500)])], 1500))
    out.append(('around-record-size', [(0.0, [text(0, 16384 - 20), text(1), text(2, 16384), text(3)]), (0.4, [text(4, 20000), text(5)])], 6))
    out.append(('around-buffer-size', [(0.0, [text(0, 65536 - 10), text(1), text(2, 65536 + 1), text(3)]), (0.4, [text(4, 2 * 65536 + 1), text(5), text(6)])], 7))
    return out


def run_one(name, bursts, expect, tls_files):
    from . import world
    m = world.lomond_modules()          # (run in a process of its own: no shim is installed, the real socket/ssl/select/time are used)
    WS = m['websocket']
    srv = Server(bursts, tls_files)
    srv.start()
    url = '%s://127.0.0.1:%d/' % ('wss' if tls_files else 'ws', srv.port)
    ws = WS.WebSocket(url, proxies={})
    got = []
    t0 = time.time()
    for ev in ws.connect(poll=POLL, ping_rate=0, close_timeout=2):
        if ev.name == 'text':
            got.append((int(ev.text[:6]), time.time()))
        if time.time() - t0 > 30:
            break
    srv.join(5)
    if srv.error:
        return {"name": name, "tls": bool(tls_files), "error": srv.error}
    # lateness of every message relative to the moment the server had handed its burst to the OS
    late = 0.0
    idx = 0
    sizes = [len(fr) for _, fr in bursts]
    bounds = []
    acc = 0
    for s in sizes:
        acc += s
        bounds.append(acc)
    for i, t in got:
        b = next(k for k, e in enumerate(bounds) if i < e)
        if b < len(srv.sent_at):
            late = max(late, t - srv.sent_at[b])
    return {"name": name, "tls": bool(tls_files), "messages": len(got), "expected": expect, "max_lateness_s": round(late, 3),
            "ok": len(got) == expect and late < LIMIT}


def main():
    d = tlc.scratch_dir()
    out = []
    try:
        files = make_cert(d)
        for tls_files in (None, files):
            if tls_files is None and files is None:
                pass
            for name, bursts, expect in scenarios():
                if tls_files is None or files is not None:
                    out.append(run_one(name, bursts, expect, tls_files))
            if files is None:
                out.append({"name": "tls", "skipped": "openssl could not create a certificate"})
                break
    finally:
        import shutil
        shutil.rmtree(d, ignore_errors=True)
    import json
    print(json.dumps(out))


if __name__ == '__main__':
    main()
