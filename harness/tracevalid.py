"""Code -> spec: seeded random scenarios in the environment language of spec/Lomond.tla (far beyond the bounds explored
exhaustively) are executed against the real code, and TLC decides for every recorded execution whether it is a behaviour of
the model (spec/TraceLomond.tla): the recorded script pins every environment/application choice, the model's observation
history must remain a prefix of the recorded one, and the model must reach its final state with the whole record."""
import json
import os
import random

from . import pipeline, replay, sessprop, tlc

EVENTS = ["connecting", "connected", "ready", "rejected", "poll", "text", "binary", "ping", "pong", "closing", "closed",
          "protocol_error", "unresponsive", "disconnected", "connect_fail"]
CONSTS = dict(HttpItems='HttpAll', Items='ItemsT', MaxItems=80, ChunkMax=4, MaxIdle=80, Dts={0, 5}, NAddr=2,
              Faults={"dns", "refused", "reqwrite", "recv_error", "recv_boom", "wait_raise", "write_error"},
              Reacts={"none", "send", "ping", "close", "badclose"}, ReactAt=set(EVENTS), MaxReacts=80, AbandonAt=set(), Conforming=False, AfterClose=True)
CALL = {"send_text": "send_text", "send_ping": "send_ping", "close": "close"}


def trace_module(mc, items, http):
    """TraceLomond instantiated on another alphabet module (text of spec/TraceLomond.tla with the EXTENDS line replaced)."""
    text = open(os.path.join(tlc.SPEC_DIR, 'TraceLomond.tla')).read()
    name = 'TraceLomond_' + mc
    text = text.replace('MODULE TraceLomond', 'MODULE ' + name).replace('EXTENDS MC_C07, IOUtils', 'EXTENDS %s, IOUtils' % mc)
    text = text.replace('TInit ==', 'TEmitAlphabet == pc # "start" \\/ PrintT(ToJson([alphabet |-> [items |-> %s, http |-> %s]]))\nTInit ==' % (items, http))
    return (name, text)


def alphabet(mc='MC_C07', items='ItemsT', http='HttpAll', cfgname='CfgIdle'):
    consts = dict(sessprop.DEFAULTS)
    consts.update(HttpItems=http, Items=items, Cfg=cfgname, MaxItems=0)
    d = tlc.scratch_dir()
    try:
        path = os.path.join(d, 'dummy.ndjson')
        with open(path, 'w') as fh:
            fh.write(json.dumps({"id": 0, "script": {"dns": "ok", "net": [], "writes": [], "stream": [], "steps": [], "react": []}, "rec": []}) + '\n')
        res = tlc.run(trace_module(mc, items, http), sessprop.cfg_text(consts, invariants=('TEmitAlphabet',), spec='TSpec'), timeout=300, workers=2,
                      env={"TRACE_FILE": path})
    finally:
        import shutil
        shutil.rmtree(d, ignore_errors=True)
    for l in res.lines:
        if isinstance(l, dict) and 'alphabet' in l:
            return l['alphabet'], res
    raise pipeline.MachineryFailure('%s did not print its alphabet' % mc)


def random_script(rng, alpha, timers, with_faults=True, after_close=True):
    s = {"dns": "ok", "net": ["ok"], "writes": [], "stream": [], "steps": [], "react": []}
    r = rng.random() if with_faults else 1.0
    if r < 0.04:
        s['dns'] = 'fail'
    elif r < 0.10:
        s['net'] = ['refused', 'refused']
    elif r < 0.16:
        s['net'] = ['refused', 'ok']
    s['writes'] = [('error' if (with_faults and rng.random() < 0.03) else 'ok') for _ in range(60)]
    n = rng.randint(3, 25)
    faulty = with_faults and rng.random() < 0.4
    closed = False
    partial = False
    first = True
    for _ in range(n):
        q = rng.random()
        dt = rng.choice([0, 0, 5]) if timers else 0
        if q < 0.2 and timers:
            s['steps'].append({"kind": "timeout", "dt": 5})
        elif q < 0.27 and faulty:
            s['steps'].append({"kind": rng.choice(["eof", "error", "boom"]), "dt": dt})
            break
        elif q < 0.30 and faulty:
            s['steps'].append({"kind": "wait_raise", "dt": 0})
            break
        elif not partial:
            k = rng.randint(1, 4)
            chunk = []
            if first:
                chunk.append(rng.choice(alpha['http']) if rng.random() < 0.2 else [h for h in alpha['http'] if h['v'] == 'ok'][0])
                first = False
                k -= 1
            for _ in range(k):
                if closed and not after_close:
                    break
                it = rng.choice(alpha['items'])
                chunk.append(it)
                if it['t'] == 'part':
                    partial = True
                    break
                if it['t'] == 'f' and it['op'] == 8:
                    closed = True
            if not chunk:
                break
            s['stream'].extend(chunk)
            s['steps'].append({"kind": "data", "dt": dt, "items": len(chunk)})
    s['steps'].append({"kind": "eof", "dt": 0})
    at = sorted(rng.sample(range(0, 30), rng.randint(0, 6)))
    s['react'] = [{"at": a, "call": rng.choice(["send_text", "send_ping", "close", "send_text", "send_ping", "badclose"])} for a in at]
    return s


def validate(run, tier, cfgname, cfg, n, mc='MC_C07', items='ItemsT', http='HttpAll', faults=None, after_close=True):
    alpha, res0 = alphabet(mc, items, http, cfgname)
    run.add_tlc('%s alphabet' % mc, res0)
    rng = random.Random(run.seed * 31 + (1 if cfgname == 'CfgTimers' else 0))
    scripts = [random_script(rng, alpha, cfgname == 'CfgTimers', faults is None or bool(faults), after_close) for _ in range(n)]
    scs = [replay.script_to_scenario(s, cfg, naddr=2) for s in scripts]
    logs = pipeline.execute(scs)
    objs = []
    for i, (s, log) in enumerate(zip(scripts, logs)):
        rec = [r for r in replay.project(log) if r['k'] != 'rd']
        fired = [{"at": c['at'], "call": ('badclose' if c['m'] == 'close' and c.get('reason', {}).get('n') == [0, 124] else CALL[c['m']])}
                 for c in log if c['k'] == 'call']
        given = dict(s, react=fired)
        objs.append({"id": i, "script": given, "rec": sessprop.slim(rec, None, drop=('headers', 'msg', 'url', 'host', 'port', 'key', 'len', 'pl', 'raw', 'reason',
                                                                                   'cps', 'extensions', 'protocol', 'custom'))})
    # canaries: corrupted copies of real traces must NOT be accepted (demonstrates that the validation binds)
    import copy
    canaries = []
    donors = [o for o in objs if len([r for r in o['rec'] if r['k'] == 'ev']) >= 4][:3]
    for j, o in enumerate(donors):
        c = copy.deepcopy(o)
        c['id'] = 100000 + j
        evpos = [k for k, r in enumerate(c['rec']) if r['k'] == 'ev']
        if j == 0:
            del c['rec'][evpos[-2]]                                  # an event removed
        elif j == 1:
            c['rec'][evpos[-1]]['name'] = 'closed'                   # the terminal event replaced
        else:
            c['rec'].insert(evpos[2], dict(c['rec'][evpos[1]]))      # an event duplicated
        canaries.append(c)
    objs = objs + canaries
    consts = dict(sessprop.DEFAULTS)
    consts.update(CONSTS, Cfg=cfgname, Items=items, HttpItems=http, AfterClose=after_close)
    cfgtext = sessprop.cfg_text(consts, invariants=('Accept',), spec='TSpec')
    tmod = trace_module(mc, items, http)
    accepted = set()
    states = 0
    from concurrent.futures import ThreadPoolExecutor
    parts = [objs[k::8] for k in range(8)]

    def one(part):
        d = tlc.scratch_dir()
        try:
            path = os.path.join(d, 'traces.ndjson')
            with open(path, 'w') as fh:
                for o in part:
                    fh.write(json.dumps(tlc.tlcify(o), separators=(',', ':')) + '\n')
            return tlc.run(tmod, cfgtext, env={"TRACE_FILE": path}, timeout=1800, workers=2, heap='3g')
        finally:
            import shutil
            shutil.rmtree(d, ignore_errors=True)
    with ThreadPoolExecutor(max_workers=8) as ex:
        for res in ex.map(one, [p for p in parts if p]):
            if res.violated:
                raise pipeline.MachineryFailure('trace validation run failed: %s' % res.error)
            states += res.distinct
            for l in res.lines:
                if isinstance(l, dict) and 'accepted' in l:
                    accepted.add(l['accepted'])
    run.states += states
    run.transitions += states
    run.tlc_runs.append({"run": "TraceLomond %s (random scripts, code -> spec)" % cfgname, "traces": len(objs), "accepted": len(accepted), "distinct": states})
    bad_canaries = [c['id'] for c in canaries if c['id'] in accepted]
    if bad_canaries or len(canaries) < 2:
        raise pipeline.MachineryFailure('trace validation accepted a corrupted trace (or had no canaries): %s' % bad_canaries)
    objs = objs[:len(objs) - len(canaries)]
    accepted = set(a for a in accepted if a < 100000)
    rejected = [i for i in range(len(objs)) if i not in accepted]
    run.cov.setdefault('trace_validation', []).append({"cfg": cfgname, "traces": len(objs), "accepted_by_TLC": len(accepted), "corrupted_canaries_rejected": len(canaries),
                                                       "mean_events": round(sum(len([x for x in l if x['k'] == 'ev']) for l in logs) / max(1, len(logs)), 1)})
    if rejected:
        run.note('model-drift %s: %d of %d random traces are not behaviours of Lomond.tla (%s), first script=%s'
                 % (run.prop, len(rejected), len(objs), cfgname, json.dumps(objs[rejected[0]]['script'])[:600]))
    return scs, logs, len(accepted)
