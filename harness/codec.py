"""Independent wire codecs used by the harness (nothing here imports lomond).

* server-side RFC 6455 frame decoder for what the client writes,
* frame encoder for what the simulated server sends (any length form, any header bits),
* HTTP request parser, handshake-reply builder, accept digest,
* payload-value encoding shared by scenarios and traces (`pv`).
"""
import base64
import hashlib
import struct

WS_GUID = b'258EAFA5-E914-47DA-95CA-C5AB0DC85B11'
SMALL = 130         # payloads up to this many bytes are written out in traces (covers every control-frame payload)


def pv(b):
    """Uniform payload value for TLC: length as <<hi, lo>> (16-bit limbs of a 32-bit length),
    the bytes themselves when small, a digest when large."""
    b = bytes(b)
    n = len(b)
    if n <= SMALL:
        return {"n": [n >> 16, n & 0xFFFF], "s": list(b), "h": ""}
    return {"n": [n >> 16, n & 0xFFFF], "s": [], "h": hashlib.sha1(b).hexdigest()}


def accept_for(key):
    return base64.b64encode(hashlib.sha1(key + WS_GUID).digest())


def encode_frame(op, payload=b'', fin=1, rsv1=0, rsv2=0, rsv3=0, mask=False, lenform=None,
                 key=b'\x00\x00\x00\x00', announce=None):
    """Server-side frame encoder.  lenform in (7, 16, 64) forces a (possibly non-minimal) form;
    `announce` overrides the announced length (the payload bytes given are still appended)."""
    n = len(payload) if announce is None else announce
    b0 = (fin << 7) | (rsv1 << 6) | (rsv2 << 5) | (rsv3 << 4) | op
    if lenform is None:
        lenform = 7 if n < 126 else (16 if n < 65536 else 64)
    m = 0x80 if mask else 0
    if lenform == 7:
        assert n < 126
        h = struct.pack('!BB', b0, m | n)
    elif lenform == 16:
        assert n < 65536
        h = struct.pack('!BBH', b0, m | 126, n)
    else:
        h = struct.pack('!BBQ', b0, m | 127, n)
    if mask:
        payload = bytes(x ^ key[i % 4] for i, x in enumerate(payload))
        return h + key + payload
    return h + payload


def decode_client_frames(data):
    """Decode a byte string written by the client into a list of frame dicts plus leftover bytes.
    Strict and independent: used to judge what was handed to sendall."""
    out = []
    pos = 0
    n = len(data)
    while pos < n:
        if n - pos < 2:
            break
        b0, b1 = data[pos], data[pos + 1]
        ln = b1 & 0x7F
        off = pos + 2
        lenform = 7
        if ln == 126:
            if n - off < 2:
                break
            (ln,) = struct.unpack('!H', data[off:off + 2])
            off += 2
            lenform = 16
        elif ln == 127:
            if n - off < 8:
                break
            (ln,) = struct.unpack('!Q', data[off:off + 8])
            off += 8
            lenform = 64
        masked = bool(b1 & 0x80)
        key = b''
        if masked:
            if n - off < 4:
                break
            key = data[off:off + 4]
            off += 4
        if n - off < ln:
            break
        raw = data[off:off + ln]
        if masked:
            # unmask with plain integer arithmetic (independent of lomond.mask)
            k = key * (ln // 4 + 1)
            payload = (int.from_bytes(raw, 'big') ^ int.from_bytes(k[:ln], 'big')).to_bytes(ln, 'big') if ln else b''
        else:
            payload = raw
        minimal = (lenform == 7 and ln < 126) or (lenform == 16 and 126 <= ln < 65536) or (lenform == 64 and ln >= 65536)
        out.append({"fin": b0 >> 7, "rsv1": (b0 >> 6) & 1, "rsv2": (b0 >> 5) & 1, "rsv3": (b0 >> 4) & 1,
                    "op": b0 & 15, "masked": masked, "key": list(key), "lenform": lenform, "minimal": minimal,
                    "payload": payload})
        pos = off + ln
    return out, data[pos:]


def parse_http_request(data):
    """Parse an HTTP request head.  Returns dict(method, target, version, headers=[(lname, value)], ok, rest)."""
    end = data.find(b'\r\n\r\n')
    if end < 0:
        return {"ok": False, "why": "unterminated"}
    head, rest = data[:end], data[end + 4:]
    lines = head.split(b'\r\n')
    parts = lines[0].split(b' ')
    if len(parts) != 3:
        return {"ok": False, "why": "request line"}
    hdrs = []
    for ln in lines[1:]:
        name, sep, value = ln.partition(b':')
        if not sep or not name or name != name.strip():
            return {"ok": False, "why": "header line %r" % ln}
        hdrs.append((name.decode('latin-1').lower(), value.strip().decode('latin-1')))
    return {"ok": True, "method": parts[0].decode('latin-1'), "target": parts[1].decode('latin-1'),
            "version": parts[2].decode('latin-1'), "headers": hdrs, "rest": rest}
