"""Running TLC and reading what it prints."""
import json
import os
import re
import shutil
import subprocess
import tempfile
import time

JAR = '/opt/veriftools/tla/tla2tools.jar'
DEPS = '/opt/veriftools/tla/CommunityModules-deps.jar'
SPEC_DIR = os.path.join(os.path.dirname(os.path.dirname(os.path.abspath(__file__))), 'spec')


class TLCError(Exception):
    pass


class TLCResult(object):
    def __init__(self):
        self.states = 0
        self.distinct = 0
        self.depth = 0
        self.lines = []        # PrintT output lines (already JSON-decoded when they were strings)
        self.tuples = []       # raw PrintT tuple lines
        self.violated = None   # name of a violated invariant / property
        self.wall = 0.0
        self.raw = ''
        self.coverage = {}


def scratch_dir(prefix='lomond-verif-'):
    base = os.environ.get('VERIF_SCRATCH') or tempfile.gettempdir()
    return tempfile.mkdtemp(prefix=prefix, dir=base)


def run(module, cfg_text, extra_modules=None, workers=None, env=None, timeout=3600, simulate=None,
        depth=None, seed=None, keep=False, coverage=False, dfid=None, heap='6g'):
    """Run TLC on `module` (a name in spec/ or a (name, text) pair) with the given cfg text."""
    d = scratch_dir()
    res = TLCResult()
    try:
        for f in os.listdir(SPEC_DIR):
            if f.endswith('.tla'):
                shutil.copy(os.path.join(SPEC_DIR, f), os.path.join(d, f))
        for name, text in (extra_modules or {}).items():
            with open(os.path.join(d, name + '.tla'), 'w') as fh:
                fh.write(text)
        if isinstance(module, tuple):
            name, text = module
            with open(os.path.join(d, name + '.tla'), 'w') as fh:
                fh.write(text)
            module = name
        with open(os.path.join(d, module + '.cfg'), 'w') as fh:
            fh.write(cfg_text)
        workers = workers or min(16, os.cpu_count() or 4)
        os.mkdir(os.path.join(d, 'jtmp'))        # SANY unpacks the standard modules into java.io.tmpdir and leaves them there
        cmd = ['java', '-XX:+UseParallelGC', '-Xmx' + heap, '-Xss256m', '-Djava.io.tmpdir=' + os.path.join(d, 'jtmp'), '-cp', JAR + ':' + DEPS, 'tlc2.TLC', '-workers', str(workers),
               '-metadir', os.path.join(d, 'meta'), '-noGenerateSpecTE', '-config', module + '.cfg']
        if simulate:
            cmd += ['-simulate', simulate]
        if depth:
            cmd += ['-depth', str(depth)]
        if seed is not None:
            cmd += ['-seed', str(seed)]
        if coverage:
            cmd += ['-coverage', '1']
        cmd.append(module + '.tla')
        e = dict(os.environ)
        e.update(env or {})
        t0 = time.time()
        try:
            p = subprocess.run(cmd, cwd=d, env=e, stdout=subprocess.PIPE, stderr=subprocess.STDOUT, timeout=timeout)
            out = p.stdout.decode('utf-8', 'replace')
        except subprocess.TimeoutExpired as ex:
            out = (ex.stdout or b'').decode('utf-8', 'replace')
            if not simulate:
                raise TLCError('TLC timed out after %ss on %s' % (timeout, module))
        res.wall = time.time() - t0
        res.raw = out
        parse_output(out, res)
        if res.error and not res.violated:
            raise TLCError('TLC failed on %s:\n%s' % (module, res.error[:3000]))
        return res
    finally:
        if not keep:
            shutil.rmtree(d, ignore_errors=True)


def parse_output(out, res):
    res.error = None
    err_lines = []
    in_err = False
    for line in out.split('\n'):
        if line.startswith('"'):
            try:
                s = json.loads(line)
            except ValueError:
                continue
            if s[:1] in '{[':
                try:
                    res.lines.append(json.loads(s))
                    continue
                except ValueError:
                    pass
            res.lines.append(s)
        elif line.startswith('<<'):
            res.tuples.append(line)
        elif line.startswith('Error:'):
            m = re.match(r'Error: Invariant (\S+) is violated', line)
            if m:
                res.violated = m.group(1)
            m = re.match(r'Error: Action property (\S+) is violated', line)
            if m:
                res.violated = m.group(1)
            if 'Temporal properties were violated' in line:
                res.violated = res.violated or 'temporal'
            in_err = True
            err_lines.append(line)
        elif in_err and len(err_lines) < 60:
            err_lines.append(line)
        m = re.match(r'(\d+) states generated, (\d+) distinct states found', line)
        if m:
            res.states, res.distinct = int(m.group(1)), int(m.group(2))
        m = re.match(r'The depth of the complete state graph search is (\d+)', line)
        if m:
            res.depth = int(m.group(1))
        m = re.match(r'<(\w+) line \d+, col \d+ to line \d+, col \d+ of module (\w+)>: (\d+):(\d+)', line)
        if m:
            res.coverage[m.group(1)] = res.coverage.get(m.group(1), 0) + int(m.group(4))
    if err_lines:
        res.error = '\n'.join(err_lines)


def parse_tuple(line):
    """Parse a PrintT'ed TLA+ tuple of strings/ints like <<"REJECT", 12, "clause">>."""
    inner = line.strip()[2:-2]
    out = []
    for tok in re.findall(r'"(?:[^"\\]|\\.)*"|-?\d+|TRUE|FALSE', inner):
        if tok.startswith('"'):
            out.append(json.loads(tok))
        elif tok in ('TRUE', 'FALSE'):
            out.append(tok == 'TRUE')
        else:
            out.append(int(tok))
    return out


def tlcify(x):
    """Make a Python value safe for TLC's JSON deserialiser (no null, no float, no empty object)."""
    if x is None:
        return "none"
    if isinstance(x, bool):
        return x
    if isinstance(x, int):
        if abs(x) >= (1 << 31):
            raise ValueError('integer too large for TLC: %r' % x)
        return x
    if isinstance(x, float):
        if x != int(x):
            raise ValueError('non-integral float for TLC: %r' % x)
        return int(x)
    if isinstance(x, (bytes, bytearray)):
        return list(x)
    if isinstance(x, str):
        return x
    if isinstance(x, (list, tuple)):
        return [tlcify(v) for v in x]
    if isinstance(x, dict):
        if not x:
            return {"_": 0}
        return {str(k): tlcify(v) for k, v in x.items()}
    raise ValueError('cannot pass %r to TLC' % (x,))
