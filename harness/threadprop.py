"""Shared driver of the schedule-exploration checks C11 and C12."""
import json
import multiprocessing
import random

from . import pipeline, tlc, sched

MC_CFG = ("SPECIFICATION Spec\nCONSTANTS Programs <- %s\n Variant = \"%s\"\nINVARIANT NoTornWrite\nINVARIANT AtMostOneClose\nINVARIANT NothingAfterClose\n"
          "INVARIANT CompressOrderIsWireOrder\nINVARIANT PerThreadOrder\nINVARIANT LoserGetsError\nCHECK_DEADLOCK FALSE\n")


def model_checks(run):
    """TLC: all interleavings of Threads.tla at shared-access granularity; the repaired variant satisfies every invariant, and
    the model is able to express the defects (the as-found variant violates them)."""
    for prog in ('P1', 'P2', 'P3', 'P4', 'P5'):
        res = tlc.run('MC_Threads', MC_CFG % (prog, 'repaired'), timeout=900)
        run.add_tlc('Threads.tla %s repaired (all interleavings)' % prog, res)
        if res.violated:
            raise pipeline.MachineryFailure('Threads.tla (repaired) violates %s on %s' % (res.violated, prog))
    res = tlc.run('MC_Threads', MC_CFG % ('P1', 'as_found'), timeout=900)
    run.add_tlc('Threads.tla P1 as_found (must violate an invariant)', res)
    if not res.violated:
        raise pipeline.MachineryFailure('Threads.tla cannot express the race of the pinned snapshot')
    res = tlc.run('MC_Threads', MC_CFG % ('P4', 'pre_f8'), timeout=900)
    run.add_tlc('Threads.tla P4 pre_f8 (closing -> closed outside the lock: must violate NothingAfterClose)', res)
    if res.violated != 'NothingAfterClose':
        raise pipeline.MachineryFailure('Threads.tla cannot express the closing->closed race (got %s)' % res.violated)


def _subtree(job):
    idx, (program, start, bound, opcode) = job
    try:
        out = []
        if opcode:
            # one forced opcode-granular schedule (the prefix is marked with a leading 'op')
            recs, _ = sched.execute(program, start[0][1:], opcode=True)
            return idx, [(start[0], recs)], None
        for prefix, recs in sched.explore(program, bound, opcode=opcode, start=start, limit=4000):
            if any(rec.get('k') == 'stall' for rec in recs):
                # the scheduler itself got stuck (machine overloaded?): its abandoned threads may still be running in this process and
                # would disturb every later execution - give up this subtree here, the driver repeats it in a fresh process
                return idx, None, 'STALL'
            out.append((prefix, recs))
        return idx, out, None
    except Exception as e:
        import traceback
        return idx, None, 'SCHED: %s\n%s' % (e, traceback.format_exc())


def _random_runs(job):
    idx, (program, seed, n, opcode) = job
    try:
        out = []
        rng = random.Random(seed)
        for i in range(n):
            recs, choices = sched.execute(program, [], opcode=opcode, rng=rng)
            if any(rec.get('k') == 'stall' for rec in recs):
                return idx, None, 'STALL'
            out.append((['random', seed, i], recs))
        return idx, out, None
    except Exception as e:
        import traceback
        return idx, None, 'SCHED: %s\n%s' % (e, traceback.format_exc())


def explore_all(run, programs, bounds, random_runs=0, opcode_random=False, opcode_bound1=()):
    """Returns list of (program name, prefix, records)."""
    jobs, tags = [], []
    results = []
    for name, prog in programs:
        b = bounds[name]
        root, kids = sched.children(prog, b)
        results.append((name, [], root))
        for (prefix, used) in kids:
            jobs.append((prog, (prefix, used), b, False))
            tags.append(name)
        if name in opcode_bound1:
            # every schedule with one pre-emption at OPCODE granularity (each first-level alternative is one execution)
            root, kids = sched.children(prog, 1, opcode=True)
            for (prefix, used) in kids:
                if used == 1:
                    jobs.append((prog, (['op'] + prefix, 1), 1, True))
                    tags.append(name)
        if random_runs:
            per = max(1, random_runs // (len(programs) * 16))
            for j in range(16):
                jobs.append(('R', prog, run.seed * 7919 + j, per))
                tags.append(name)
    norm, rnd = [], []
    for j, t in zip(jobs, tags):
        (rnd if j[0] == 'R' else norm).append((j, t))
    ctx = multiprocessing.get_context('fork')
    norm_jobs = list(enumerate([j for j, t in norm]))
    rnd_jobs = list(enumerate([(j[1], j[2], j[3], opcode_random) for j, t in rnd]))
    stalls = 0

    def collect(pool, fn, todo, tags_of, attempt):
        again = []
        for idx, out, err in pool.imap_unordered(fn, todo, chunksize=1):
            if err == 'STALL':
                again.append(idx)
                run.cov.setdefault('stalled_subtrees', []).append([tags_of[idx][1], attempt])
                continue
            if err:
                raise pipeline.MachineryFailure(err)
            for prefix, recs in out:
                results.append((tags_of[idx][1], prefix, recs))
        return again
    # every task runs in a process of its own (maxtasksperchild=1): threads abandoned by a stalled scheduler die with it
    for fn, todo, tags_of in ((_subtree, norm_jobs, norm), (_random_runs, rnd_jobs, rnd)):
        if not todo:
            continue
        with ctx.Pool(pipeline.NPROC, maxtasksperchild=1) as pool:
            again = collect(pool, fn, todo, tags_of, 0)
        if again:
            # repeat the stalled subtrees one at a time, when the machine is quieter
            stalls += len(again)
            with ctx.Pool(1, maxtasksperchild=1) as pool:
                still = collect(pool, fn, [t for t in todo if t[0] in set(again)], tags_of, 1)
            if still:
                raise pipeline.MachineryFailure('the deterministic scheduler stalled twice on %d subtree(s) (machine overloaded?)' % len(still))
    run.cov['scheduler_stalls_repeated'] = stalls
    # the same schedule may be reached from two subtrees: keep one
    seen, uniq = set(), []
    for name, prefix, recs in results:
        key = (name, json.dumps(prefix))
        if key not in seen:
            seen.add(key)
            uniq.append((name, prefix, recs))
    return uniq


def distinct_traces(results):
    """Many schedules yield the same recorded execution; the monitor is evaluated once per distinct one."""
    groups = {}
    for i, (name, prefix, recs) in enumerate(results):
        key = name + json.dumps(recs, sort_keys=True)
        groups.setdefault(key, []).append(i)
    return list(groups.values())


def run_property(prop, monitor, tier, seed, programs, bounds_q, bounds_t, rule, need):
    r = pipeline.Run(prop, tier, seed)
    r.rule = rule
    r.assumptions = ['pre-emption points are source lines inside lomond/ (opcode granularity only in the random thorough runs), contended locks and the '
                     'two halves of every sendall; C-level atomicity of zlib objects and of one sendall half is assumed',
                     'the loop thread is represented by the calls it makes (_send_pong, _check_auto_ping, _on_close)']
    model_checks(r)
    q = tier == 'quick'
    two_thread = [name for name, prog in programs if len(prog['threads']) == 2 and name != 'large-frame-vs-small']
    # (opcode-granular exploration is ten times slower than line-granular: the thorough tier does it for four programs)
    results = explore_all(r, programs, bounds_q if q else bounds_t, random_runs=0 if q else 3000, opcode_random=not q,
                          opcode_bound1=two_thread[:2] if q else two_thread[:4])
    r.cov['opcode_granular_single_preemption'] = two_thread[:2] if q else two_thread[:4]
    stalled = [x for x in results if any(rec.get('k') == 'stall' for rec in x[2])]
    results = [x for x in results if not any(rec.get('k') == 'stall' for rec in x[2])]
    r.cov['scheduler_stalls_discarded'] = len(stalled)
    if len(stalled) > max(3, len(results) // 500):
        raise pipeline.MachineryFailure('the deterministic scheduler stalled in %d executions' % len(stalled))
    r.evaluations = len(results)
    r.traces = len(results)
    groups = distinct_traces(results)
    traces = [{"id": g[0], "tr": results[g[0]][2]} for g in groups]
    r.cov['distinct_recorded_executions'] = len(groups)
    rej, states, wall = pipeline.judge(monitor, traces)
    members = {g[0]: g for g in groups}
    rej = [(i, clause) for (rep, clause) in rej for i in members[rep][:3]]
    r.states += states
    r.transitions += states
    r.tlc_runs.append({"run": "judge " + monitor, "traces": len(traces), "wall_s": round(wall, 1)})
    seen = set()
    nt = set()
    for name, prefix, recs in results:
        halves = [(x['th'], x['part']) for x in recs if x['k'] == 'half']
        order = tuple(h[0] for h in halves if h[1] == 1)
        nt.add((name, order, tuple((c['th'], c['seq'], c['res']) for c in recs if c['k'] == 'tcall')))
        if any(c['k'] == 'tcall' and c['res'] != 'ok' for c in recs):
            seen.add('send_refused')
        if len(set(order)) > 1:
            seen.add('interleaved_threads')
        if any(x['k'] == 'wf' and x['rsv1'] for x in recs):
            seen.add('compressed')
        if any(x['k'] == 'wf' and x['op'] == 8 for x in recs):
            seen.add('close_frame')
    r.nontrivial = len(nt)
    r.exhaustive = q
    per = {}
    for name, prefix, recs in results:
        per[name] = per.get(name, 0) + 1
    r.cov['schedules_per_program'] = per
    r.cov['preemption_bounds'] = bounds_q if q else bounds_t
    for i in (0, len(results) // 2):
        r.samples.append({"program": results[i][0], "forced_choices": results[i][1][:40],
                          "wire": [(x['op'], x['rsv1']) for x in results[i][2] if x['k'] == 'wf'],
                          "calls": [(c['th'], c['m'], c['res']) for c in results[i][2] if c['k'] == 'tcall']})
    progs = dict(programs)
    for tid, clause in rej:
        name, prefix, recs = results[tid]
        r.violation(clause, {"program": name, "threads": progs[name], "schedule": prefix,
                             "records": [x for x in recs if x['k'] != 'half'][:40]})
    missing = sorted(set(need) - seen)
    return r.finish(vacuous=('never exercised: %s' % missing) if missing else None)


def replay(prop, monitor, path):
    case = json.load(open(path))['case']
    prefix = case['schedule']
    if prefix and prefix[0] == 'op':
        recs, _ = sched.execute(case['threads'], prefix[1:], opcode=True)
    elif prefix and prefix[0] == 'random':
        rng = random.Random(prefix[1])
        recs = None
        for i in range(prefix[2] + 1):
            recs, _ = sched.execute(case['threads'], [], opcode=True, rng=rng)
    else:
        recs, _ = sched.execute(case['threads'], prefix)
    for x in recs:
        if x['k'] != 'half':
            print(json.dumps({k: v for k, v in x.items() if k != 'pl'}))
    rej, _, _ = pipeline.judge(monitor, [{"id": 0, "tr": recs}])
    if rej:
        print('VIOLATION property=%s replay=%s clause=%s' % (prop, path, rej[0][1]))
        return 1
    print('%s replay: ok' % prop)
    return 0
