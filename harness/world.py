"""The simulated world: the real lomond code (imported from $LOMOND_SRC, default /repo) runs against
scripted sockets, TLS layer, selectors, clock, randomness.  No source hooks: module-level names of the
imported lomond modules are replaced.  Everything observable is recorded as a list of JSON records.

Record kinds (field `k`):
  ev    event yielded by the iterator        name, t, + public attributes
  wr    one sendall() on a simulated socket  sock, t, what = request|connect|frame|garbage, decoded fields
  wrf   a sendall() that failed              sock, t, exc
  call  an application call                  m, res (ok | exception class name), wserr (bool), at (event index)
  sock  socket life-cycle                    op = create|connect|shutdown|close|wrap, sock, t
  sel   selector life-cycle                  op = create|close
  wait  one selector wait                    dt, ready, t (time after the wait), want (requested timeout, ticks*1000)
  rd    one recv                             sock, n (bytes) | what = eof|error|boom, t
  stop  StopIteration                        ;  escape  an exception left next()   exc
  abandon  the consumer stopped iterating    mech, at
  end   final state                          socks=[{id, closed, alive}], sels=[{closed}]
"""
import base64
import gc
import hashlib
import importlib
import json
import os
import random as _random
import sys
import threading
import types
import weakref

from . import codec

LOMOND_SRC = os.environ.get('LOMOND_SRC', '/repo')
BASE_TIME = 4096.0


class MachineryError(Exception):
    """The harness itself cannot do its job (exit status 2, never a verdict)."""


class Boom(Exception):
    """An 'arbitrary exception' injected by the fault script (not a socket.error).  Like every simulated error text it carries
    characters that mean something to str.format and to %-formatting: an error message is data, never a template."""

    def __init__(self, where):
        Exception.__init__(self, '%s failed {0} {} {where} %%s %%d' % where)


_mods = {}


def lomond_modules():
    """Import lomond from LOMOND_SRC and check that it really comes from there."""
    if _mods:
        return _mods
    if LOMOND_SRC not in sys.path:
        sys.path.insert(0, LOMOND_SRC)
    import logging
    logging.disable(logging.CRITICAL)
    names = ['session', 'websocket', 'events', 'selectors', 'persist', 'frame', 'compression', 'errors',
             'mask', 'stream', 'frame_parser', 'parser', 'message', 'response', 'utf8validator', 'proxy',
             'status', 'opcode', 'extension', 'constants']
    try:
        pkg = importlib.import_module('lomond')
        for n in names:
            _mods[n] = importlib.import_module('lomond.' + n)
    except Exception as e:  # pragma: no cover
        raise MachineryError('cannot import lomond from %s: %r' % (LOMOND_SRC, e))
    if not os.path.realpath(pkg.__file__).startswith(os.path.realpath(LOMOND_SRC) + os.sep):
        raise MachineryError('lomond imported from %s, not from %s' % (pkg.__file__, LOMOND_SRC))
    _mods['pkg'] = pkg
    return _mods


W = None   # the current world


def _need(mod, name):
    if not hasattr(mod, name):
        raise MachineryError('shim point %s.%s is gone' % (mod.__name__, name))


# ----------------------------------------------------------------------------------------------
# shims
# ----------------------------------------------------------------------------------------------
class SockState(object):
    __slots__ = ('id', 'closed', 'shutdown', 'connected', 'role', 'tls', 'leftover', 'cur', 'nwrites', 'handed', '__weakref__')

    def __init__(self, i):
        self.id = i
        self.closed = False
        self.shutdown = False
        self.connected = False
        self.role = 'target'
        self.tls = False
        self.leftover = b''
        self.cur = None
        self.nwrites = 0
        self.handed = False


class SimSocket(object):
    """A scripted TCP socket.  The world keeps only a weak reference to it."""

    def __init__(self, world):
        self.w = world
        self.st = SockState(len(world.socks))
        world.socks.append(self.st)
        world.sockrefs.append(weakref.ref(self))
        world.rec({"k": "sock", "op": "create", "sock": self.st.id})

    # -- plumbing
    def setsockopt(self, *a):
        pass

    def settimeout(self, *a):
        pass

    def fileno(self):
        return 100 + self.st.id

    def connect(self, sa):
        w = self.w
        r = w.conn_take('net', 'ok')
        w.rec({"k": "sock", "op": "connect", "sock": self.st.id, "res": r, "host": str(sa[0]), "port": int(sa[1])})
        w.during('connect')
        if r == 'refused':
            raise OSError(111, 'Connection refused (sim {0} {} {errno} %s)')
        if r == 'boom':
            raise Boom('connect')
        self.st.connected = True

    def sendall(self, data):
        w = self.w
        data = bytes(data)
        if self.st.closed:
            raise OSError(9, 'Bad file descriptor (sim {0} {} {errno} %s)')
        idx = w.nwrites
        w.nwrites += 1
        if data[:4] == b'GET ':
            self.st.handed = True       # the upgrade request is being written: this socket belongs to the session now
        r = w.conn_write_outcome(idx)
        if r != 'ok':
            fr, rest = codec.decode_client_frames(data)
            w.rec({"k": "wrf", "sock": self.st.id, "exc": r, "op": fr[0]['op'] if len(fr) == 1 and not rest else -1})
            raise (OSError(32, 'Broken pipe (sim {0} {} {errno} %s)') if r == 'error' else Boom('sendall'))
        w.on_write(self, data)

    def _k_recv(self, buf, n, tls):
        """Transport model of C18: kernel buffer + (for TLS) a record layer with its own plaintext buffer."""
        w = self.w
        k = w.k
        if n > len(buf):
            raise ValueError('buffer too small for requested bytes')
        if tls:
            if not k['tbuf']:
                if k['kbuf']:
                    r = min(k['rec'], len(k['kbuf']))
                    k['tbuf'] = bytes(k['kbuf'][:r])
                    del k['kbuf'][:r]
                elif k['eof']:
                    w.rec({"k": "rd", "sock": self.st.id, "what": "eof", "n": 0})
                    return 0
                else:
                    w.rec({"k": "stall", "why": "TLS read with nothing to decrypt"})
                    raise Watchdog('blocking TLS read would never return')
            cap = min(n, len(k['tbuf']), k['short'] or n)
            out, k['tbuf'] = k['tbuf'][:cap], k['tbuf'][cap:]
        else:
            if not k['kbuf']:
                if k['eof']:
                    w.rec({"k": "rd", "sock": self.st.id, "what": "eof", "n": 0})
                    return 0
                w.rec({"k": "stall", "why": "read on an empty kernel buffer"})
                raise Watchdog('blocking read would never return')
            out = bytes(k['kbuf'][:n])
            del k['kbuf'][:len(out)]
        buf[:len(out)] = out
        w.consumed += len(out)
        ic = sum(1 for e in (w.item_ends or []) if e <= w.consumed)
        w.rec({"k": "rd", "sock": self.st.id, "what": "data", "n": len(out), "pos": w.consumed, "ic": ic,
               "fpos": w.consumed - w.http_len, "asked": n})
        return len(out)

    def recv_into(self, buf, n):
        w = self.w
        if w.k is not None:
            return self._k_recv(buf, n, False)
        if n > len(buf):
            raise ValueError('buffer too small for requested bytes')
        st = self.st
        if st.leftover:
            d = st.leftover
        else:
            cur = st.cur if st.cur is not None else w.next_read_step()
            st.cur = None
            if cur['kind'] == 'eof':
                w.rec({"k": "rd", "sock": st.id, "what": "eof", "n": 0})
                return 0
            if cur['kind'] == 'error':
                w.rec({"k": "rd", "sock": st.id, "what": "error", "n": 0})
                raise OSError(104, 'Connection reset by peer (sim {0} {} {errno} %s)')
            if cur['kind'] == 'boom':
                w.rec({"k": "rd", "sock": st.id, "what": "boom", "n": 0})
                raise Boom('recv')
            d = cur['bytes']
        out, st.leftover = d[:n], d[n:]
        buf[:len(out)] = out
        w.consumed += len(out)
        ic = sum(1 for e in (w.item_ends or []) if e <= w.consumed)
        w.rec({"k": "rd", "sock": st.id, "what": "data", "n": len(out), "pos": w.consumed, "ic": ic,
               "fpos": w.consumed - getattr(w, 'http_len', 0)})
        return len(out)

    def recv(self, n):
        """Blocking read (only used by the proxy phase)."""
        w = self.w
        w.during('proxy_recv')
        if self.st.leftover:
            d, self.st.leftover = self.st.leftover[:n], self.st.leftover[n:]
            w.pconsumed += len(d)
            w.rec({"k": "rd", "sock": self.st.id, "what": "data", "n": len(d), "pdone": w.pconsumed >= w.plen > 0})
            return d
        if w.conn.get('proxy_reply') is not None and 'proxy_reads' not in w.conn:
            from . import concretise
            w.conn['proxy_reads'], w.plen = concretise.proxy_reads(w.conn['proxy_reply'])
        r = w.conn_take('proxy_reads', 'eof')
        if r == 'eof':
            w.rec({"k": "rd", "sock": self.st.id, "what": "eof", "n": 0})
            return b''
        if r == 'error':
            w.rec({"k": "rd", "sock": self.st.id, "what": "error", "n": 0})
            raise OSError(104, 'reset (sim {0} {} {errno} %s)')
        if r == 'boom':
            w.rec({"k": "rd", "sock": self.st.id, "what": "boom", "n": 0})
            raise Boom('recv')
        d = w.proxy_bytes(r)
        d, self.st.leftover = d[:n], d[n:]
        w.pconsumed += len(d)
        w.rec({"k": "rd", "sock": self.st.id, "what": "data", "n": len(d), "pdone": w.pconsumed >= w.plen > 0})
        return d

    def shutdown(self, how):
        self.st.shutdown = True
        self.w.rec({"k": "sock", "op": "shutdown", "sock": self.st.id})
        r = self.w.sc.get('shutdown_raises')
        if r == 'boom':
            raise Boom('shutdown')
        if r == 'reset':
            raise OSError(104, 'Connection reset by peer (sim {0} {} {errno} %s)')
        if r:
            raise OSError(107, 'not connected (sim {0} {} {errno} %s)')

    def close(self):
        self.st.closed = True
        self.w.rec({"k": "sock", "op": "close", "sock": self.st.id})


class SimTLS(object):
    """TLS wrapper: pass-through record layer (the C18 transport model subclasses this)."""

    def __init__(self, sock, host):
        self._s = sock
        self.st = sock.st
        sock.st.tls = True
        sock.w.rec({"k": "sock", "op": "wrap", "sock": sock.st.id, "host": str(host)})

    def __getattr__(self, name):
        return getattr(self._s, name)

    def recv_into(self, buf, n):
        if self._s.w.k is not None:
            return self._s._k_recv(buf, n, True)
        return self._s.recv_into(buf, n)

    def pending(self):
        k = self._s.w.k
        return len(k['tbuf']) if k is not None else 0


class _SimSSLContext(object):
    def __init__(self, protocol=None):
        pass

    def wrap_socket(self, sock, server_hostname=None):
        return W.tls_factory(sock, server_hostname)


def _shim_ssl():
    ns = types.SimpleNamespace(SSLContext=_SimSSLContext, PROTOCOL_TLS=2, PROTOCOL_SSLv23=2, HAS_SNI=True,
                               SSLError=OSError)
    ns.wrap_socket = lambda sock: W.tls_factory(sock, None)
    return ns


def _shim_socket():
    ns = types.SimpleNamespace(error=OSError, AF_UNSPEC=0, AF_INET=2, SOCK_STREAM=1, IPPROTO_TCP=6,
                               TCP_NODELAY=1, SHUT_RDWR=2, timeout=OSError, gaierror=OSError)

    def getaddrinfo(host, port, *a):
        w = W
        w.begin_connect_phase(host, port)
        if w.conn.get('dns', 'ok') == 'fail':
            w.rec({"k": "sock", "op": "dns", "sock": -1, "res": "fail", "host": str(host), "port": int(port)})
            raise OSError(-2, 'Name or service not known (sim {0} {} {errno} %s)')
        if w.conn.get('dns', 'ok') == 'boom':
            raise Boom('getaddrinfo')
        w.rec({"k": "sock", "op": "dns", "sock": -1, "res": "ok", "host": str(host), "port": int(port)})
        n = w.conn.get('naddr', 1)
        return [(2, 1, 6, '', (host, port))] * n

    def socket(af, t, p):
        r = W.conn_take('sockcreate', 'ok')
        if r != 'ok':
            W.rec({"k": "sock", "op": "create_fail", "sock": -1})
            raise OSError(24, 'Too many open files (sim {0} {} {errno} %s)')
        return SimSocket(W)
    ns.getaddrinfo = getaddrinfo
    ns.socket = socket
    return ns


class _SimPoll(object):
    def __init__(self):
        self.fd = None

    def register(self, fd, ev):
        self.fd = fd

    def poll(self, timeout_ms):
        return [(self.fd, 1)] if W.wait(self.fd, timeout_ms / 1000.0) else []


class _SimKQueue(object):
    def __init__(self):
        self.closed = False
        W.rec({"k": "sel", "op": "kq_create"})

    def control(self, events, n, timeout):
        return [events[0]] if W.wait(events[0].ident, timeout) else []

    def close(self):
        self.closed = True
        W.rec({"k": "sel", "op": "kq_close"})


def _shim_select():
    ns = types.SimpleNamespace(POLLIN=1, POLLPRI=2, POLLERR=8, POLLHUP=16, KQ_FILTER_READ=-1)
    ns.poll = lambda: _SimPoll()
    ns.select = lambda r, w_, x, timeout=None: (([r[0]], [], []) if W.wait(r[0], timeout) else ([], [], []))
    ns.kqueue = lambda: _SimKQueue()
    ns.kevent = lambda fd, filter=None: types.SimpleNamespace(ident=fd, filter=filter)
    return ns


class _SimTime(object):
    @staticmethod
    def time():
        return W.now()


class SimLock(object):
    """threading.Lock as lomond sees it.  With the scenario key 'contended_lock' another (imaginary) application thread is in the
    middle of a send - inside write(), holding the write lock - at the moment the consumer abandons the iterator: a blocking
    acquire waits for that send to finish and succeeds, a non-blocking or timed acquire fails."""

    def __init__(self):
        self._l = threading.Lock()

    def acquire(self, blocking=True, timeout=-1):
        if W is not None and W.sc.get('contended_lock') and getattr(W, 'abandoning', False) and (not blocking or timeout >= 0):
            W.rec({"k": "lock", "op": "try_failed"})
            return False
        if W is not None and W.sc.get('writer_blocked') and blocking and timeout < 0 and _writer_blocked_now(W):
            W.rec({"k": "stall", "why": "the event loop waits for the write lock while a sender is blocked on back-pressure"})
            raise Watchdog('the loop thread would wait for a sender that cannot finish')
        return self._l.acquire(blocking, timeout)

    def release(self):
        self._l.release()

    def locked(self):
        return self._l.locked()

    def __enter__(self):
        self.acquire()
        return self

    def __exit__(self, *a):
        self.release()


def _writer_blocked_now(w):
    """Scenario key 'writer_blocked': from Ready on, an (imaginary) application thread is inside sendall() - the peer does not read
    until it has been read from - and holds the write lock until the connection is over (a failed or ended read breaks its sendall too).
    Only used with streams that need no automatic reply, so that the loop has no business with the write lock while it is reading."""
    ready = over = False
    for r in w.log:
        if r['k'] == 'ev' and r.get('name') == 'ready':
            ready = True
        elif r['k'] == 'rd' and r.get('what') != 'data':
            over = True
    return ready and not over


class _SimEnviron(object):
    """os.environ as the scenario defines it (key 'env'); nothing leaks in from the real environment."""

    def get(self, name, default=None):
        return (W.sc.get('env') or {}).get(name, default)

    def __getitem__(self, name):
        return (W.sc.get('env') or {})[name]

    def __contains__(self, name):
        return name in (W.sc.get('env') or {})


class _SimOS(object):
    environ = _SimEnviron()

    @staticmethod
    def urandom(n):
        return W.urandom(n)


class ExitEvent(object):
    """exit_event handed to persist(): wait() advances the clock and answers from the script."""

    def __init__(self, world):
        self.w = world
        self.n = 0

    def wait(self, timeout=None):
        w = self.w
        k = self.n
        self.n += 1
        stop = (w.sc.get('exit_at', -1) == k)
        w.rec({"k": "bwait", "i": k, "delay": rat(timeout), "ret": stop})
        return stop

    def is_set(self):
        return False

    def set(self):
        pass


def rat(x):
    """A float as an exact rational <<num, den>> with small terms (None -> [-1, 1] marker)."""
    if x is None:
        return [-1, 0]
    from fractions import Fraction
    f = Fraction(x).limit_denominator(1 << 24)
    if abs(f.numerator) >= (1 << 30):
        return [int(round(float(f))), 1]
    return [f.numerator, f.denominator]


# ----------------------------------------------------------------------------------------------
# the world
# ----------------------------------------------------------------------------------------------
class World(object):
    during_counts = None

    def __init__(self, sc):
        self.during_counts = {}
        self.sc = sc
        self.tick = sc.get('tick', 1.0)
        self.ticks = 0
        self.log = []
        self.socks = []      # SockState per socket ever created
        self.sockrefs = []   # weak references to the SimSocket objects
        self.sels = []
        self.conns = sc.get('conns') or [{}]
        self.ci = -1         # index of the current connection script
        self.conn = {}
        self.cur = {}        # per-connection cursors
        self.nwrites = 0
        self.consumed = 0
        self.requests = []   # parsed upgrade requests, one per connection that wrote one
        self.rng = _random.Random(sc.get('seed', 0))
        self.draws = list(sc.get('draws', []))
        self.tls_factory = SimTLS
        self.stream_bytes = None
        self.item_ends = None
        self.on_frame_written = None
        self.last_app_payload = None
        self.k = None
        tr = sc.get('transport')
        if tr:
            self.k = {'kbuf': bytearray(), 'tbuf': b'', 'eof': False, 'rec': tr.get('rec', 16384), 'short': tr.get('short'),
                      'bursts': None, 'bi': 0, 'arrived': 0}
        self.pconsumed = 0
        self.plen = 0
        self.watch_steps = 0

    # -- recording and time
    def rec(self, r):
        r['t'] = self.ticks
        self.log.append(r)

    def now(self):
        return BASE_TIME + self.ticks * self.tick

    def urandom(self, n):
        return os.urandom(n)

    def peer_inflate(self, payload):
        """The simulated server's permessage-deflate inflater for client messages (window from the scenario)."""
        import zlib
        z = self.cur.get('srv_inflater')
        peer = self.sc.get('peer') or {}
        if z is None or peer.get('c_nct') or self.sc.get('peer_client_no_takeover'):
            z = self.cur['srv_inflater'] = zlib.decompressobj(-int(peer.get('cwb', self.sc.get('peer_client_wbits', 15))))
        try:
            return z.decompress(payload + b'\x00\x00\xff\xff')
        except zlib.error:
            return None

    def server_deflate(self, payload):
        """The simulated server's permessage-deflate compressor (raw deflate, sync flush, tail stripped);
        one context per connection (context takeover)."""
        import zlib
        z = self.cur.get('srv_deflater')
        peer = self.sc.get('peer') or {}
        if z is None or peer.get('s_nct'):
            z = self.cur['srv_deflater'] = zlib.compressobj(zlib.Z_DEFAULT_COMPRESSION, zlib.DEFLATED, -max(9, int(peer.get('swb', 15))))
        data = z.compress(payload) + z.flush(zlib.Z_SYNC_FLUSH)
        return data[:-4]

    # -- connection scripts
    def begin_connect_phase(self, host, port):
        """Called at getaddrinfo time: the first resolution of a connect() selects the next script."""
        if self.cur.get('phase_open'):
            return
        self.ci += 1
        self.conn = self.conns[self.ci] if self.ci < len(self.conns) else (self.conns[-1] if self.sc.get('repeat_last') else {})
        self.cur = {'phase_open': True}
        self.nwrites = 0
        self.consumed = 0
        self.stream_bytes = None
        self.item_ends = None
        self.http_len = 0
        self.pconsumed = 0
        self.plen = 0
        self.rec({"k": "conn", "i": self.ci})

    def end_connection(self):
        self.cur['phase_open'] = False

    def conn_take(self, name, default):
        lst = self.conn.get(name) or []
        i = self.cur.get(name, 0)
        self.cur[name] = i + 1
        return lst[i] if i < len(lst) else default

    def conn_write_outcome(self, idx):
        lst = self.conn.get('writes') or []
        return lst[idx] if idx < len(lst) else 'ok'

    # -- writes
    def on_write(self, sock, data):
        sid = sock.st.id
        if data[:4] == b'GET ':
            req = codec.parse_http_request(data)
            r = {"k": "wr", "sock": sid, "what": "request", "ok": bool(req.get('ok'))}
            if req.get('ok'):
                hd = req['headers']
                r.update({"method": req['method'], "target": req['target'], "version": req['version'],
                          "headers": [[a, b] for a, b in hd], "rest": len(req['rest'])})
                key = [v for (n, v) in hd if n == 'sec-websocket-key']
                r['key'] = key[0] if key else ''
                r['hnames'] = [n for (n, v) in hd]
                # data-level facts about the request, established by the harness (base64, token comparison)
                try:
                    r['keylen'] = len(base64.b64decode(r['key'], validate=True)) if len(key) == 1 else -1
                except Exception:
                    r['keylen'] = -1
                up = [v for (n, v) in hd if n == 'upgrade']
                co = [v for (n, v) in hd if n == 'connection']
                r['upgrade_ok'] = len(up) == 1 and up[0].lower() == 'websocket'
                r['connection_ok'] = len(co) == 1 and 'upgrade' in [t.strip().lower() for t in co[0].split(',')]
                r['custom'] = [(h.lower(), v) in hd for h, v in (self.sc.get('headers') or [])]
                ext = [v for (n, v) in hd if n == 'sec-websocket-extensions']
                r['offers_deflate'] = any('permessage-deflate' in [p.split(';')[0].strip() for p in v.split(',')] for v in ext)
                self.requests.append({'key': key[0].encode('latin-1') if key else b'', 'raw': data, 'conn': self.ci})
            self.rec(r)
            return
        if data[:8] == b'CONNECT ':
            req = codec.parse_http_request(data)
            r = {"k": "wr", "sock": sid, "what": "connect", "ok": bool(req.get('ok'))}
            if req.get('ok'):
                r.update({"target": req['target'], "version": req['version'],
                          "headers": [[a, b] for a, b in req['headers']], "rest": len(req['rest'])})
            self.rec(r)
            return
        frames, rest = codec.decode_client_frames(data)
        if len(frames) == 1 and not rest:
            f = frames[0]
            r = {"k": "wr", "sock": sid, "what": "frame", "fin": f['fin'], "rsv1": f['rsv1'], "rsv2": f['rsv2'],
                 "rsv3": f['rsv3'], "op": f['op'], "masked": f['masked'], "key": f['key'], "lenform": f['lenform'],
                 "minimal": f['minimal'], "pl": codec.pv(f['payload']), "raw": codec.pv(f['payload'])}
            self.last_app_payload = f['payload']
            if f['rsv1'] and self.sc.get('peer_inflate'):
                app = self.peer_inflate(f['payload'])
                self.last_app_payload = app
                r['pl'] = codec.pv(app) if app is not None else {"n": [0, 0], "s": [], "h": "INFLATE-FAILED"}
            self.rec(r)
            if self.on_frame_written:
                self.on_frame_written(f, r)
        else:
            self.rec({"k": "wr", "sock": sid, "what": "garbage", "nframes": len(frames), "rest": len(rest)})

    # -- reads
    def concretise_stream(self):
        if self.stream_bytes is None:
            from . import concretise
            key = self.requests[-1]['key'] if self.requests and self.requests[-1]['conn'] == self.ci else None
            self.stream_bytes, self.item_ends = concretise.stream_to_bytes(self.conn.get('stream') or [], key, self)
            self.spos = 0
            self.sitem = 0
        return self.stream_bytes

    def proxy_bytes(self, r):
        from . import concretise
        return concretise.proxy_reply_bytes(r, self)

    def next_read_step(self):
        """Consume script steps until one that makes the socket readable (used when recv is called directly)."""
        while True:
            s = self.next_step()
            if s['kind'] in ('data', 'eof', 'error', 'boom'):
                return s

    def next_step(self):
        i = self.cur.get('steps', 0)
        steps = self.conn.get('steps')
        if steps is None:
            # default script: one read per stream item, then EOF
            n = len(self.conn.get('stream') or [])
            steps = [{"kind": "data", "items": 1}] * n
        s = dict(steps[i]) if i < len(steps) else {"kind": "eof"}
        if s['kind'] == 'drain_item':
            # the next stream item trickles in one byte per read, `dt` ticks apart (first byte after `first_dt`)
            b = self.concretise_stream()
            end = self.item_ends[self.sitem] if self.sitem < len(self.item_ends) else len(b)
            if self.spos >= end:
                self.cur['steps'] = i + 1
                self.cur.pop('trickling', None)
                if self.sitem < len(self.item_ends):
                    self.sitem += 1
                return self.next_step()
            dt = s.get('dt', 1) if self.cur.get('trickling') else s.get('first_dt', 0)
            self.cur['trickling'] = True
            return self._take_bytes(1, dt)
        if s['kind'] == 'drain':
            # repeat reads of `bytes` bytes (or seeded random sizes) until the scripted stream is exhausted
            b = self.concretise_stream()
            if self.spos >= len(b):
                self.cur['steps'] = i + 1
                return self.next_step()
            nb = s.get('bytes', 1)
            if nb == 'rand':
                nb = self.rng.randint(1, s.get('max', 9))
            s = {"kind": "data", "bytes": nb, "dt": s.get('dt', 0)}
        else:
            self.cur['steps'] = i + 1
        if s['kind'] == 'data':
            b = self.concretise_stream()
            if 'bytes' in s:
                end = min(len(b), self.spos + s['bytes'])
            else:
                k = min(len(self.item_ends), self.sitem + s.get('items', 1))
                end = self.item_ends[k - 1] if k > 0 else self.spos
                self.sitem = k
            if end <= self.spos:
                s = {"kind": "eof", "dt": s.get('dt', 0)}
            else:
                s['bytes'] = b[self.spos:end]
                self.spos = end
                while self.sitem < len(self.item_ends) and self.item_ends[self.sitem] <= end:
                    self.sitem += 1
        return s

    def _take_bytes(self, n, dt):
        b = self.stream_bytes
        end = min(len(b), self.spos + n)
        s = {"kind": "data", "dt": dt, "bytes": b[self.spos:end]}
        self.spos = end
        while self.sitem < len(self.item_ends) and self.item_ends[self.sitem] <= end:
            self.sitem += 1
        return s

    def during(self, point):
        """Application calls made by ANOTHER thread while the loop thread is blocked in a system call (scenario key 'during':
        {"<point>#<k>": [calls]}, points: connect, proxy_recv, wait).  The loop thread holds no lock at these points, so running the
        calls right here is one legal interleaving of the two threads."""
        plan = self.sc.get('during')
        if not plan:
            return
        k = self.during_counts.get(point, 0)
        self.during_counts[point] = k + 1
        for call in plan.get('%s#%d' % (point, k)) or []:
            if getattr(self, 'ws', None) is not None:
                do_call(self, self.ws, call, -1)

    def wait(self, fd, timeout):
        """One selector wait.  Returns readable?  Advances the virtual clock."""
        self.during('wait')
        if self.watch_steps > self.sc.get('max_waits', 150):
            raise Watchdog('more than %d selector waits that delivered nothing' % self.sc.get('max_waits', 150))
        st = [s for s in self.socks if 100 + s.id == fd]
        st = st[0] if st else None
        want = -1 if timeout is None else int(round(timeout * 1000 / self.tick))
        if self.k is not None:
            return self.k_wait(want, timeout)
        if st is not None and st.leftover:
            self.rec({"k": "wait", "dt": 0, "ready": True, "want": want, "why": "leftover"})
            return True
        if self.cur.get('silent'):
            self.watch_steps += 1
            dt = int(round((timeout or 0) / self.tick))
            self.ticks += dt
            self.rec({"k": "wait", "dt": dt, "ready": False, "want": want, "why": "silence"})
            return False
        if self.cur.get('wait_broken'):
            self.watch_steps += 1
            # a selector that failed keeps failing (EBADF / ECONNRESET do not heal)
            self.rec({"k": "wait", "dt": 0, "ready": False, "want": want, "why": "raise"})
            raise (OSError(9, 'Bad file descriptor (sim {0} {} {errno} %s)') if self.cur['wait_broken'] == 'error' else Boom('wait'))
        s = self.next_step()
        if s['kind'] == 'outlived':
            # the script ends here: a client that is still waiting has outlived every time-out it was configured with
            raise Watchdog('the loop is still running after the scripted flood of event-less data (%d ticks)' % self.ticks)
        if s['kind'] == 'silence':
            self.cur['silent'] = True
            s = {"kind": "timeout"}
        if s['kind'] == 'wait_raise':
            self.cur['wait_broken'] = s.get('exc', 'error')
            self.rec({"k": "wait", "dt": 0, "ready": False, "want": want, "why": "raise"})
            raise (OSError(4, 'Interrupted (sim {0} {} {errno} %s)') if s.get('exc', 'error') == 'error' else Boom('wait'))
        dt = s.get('dt', 0)
        if s['kind'] != 'data':
            self.watch_steps += 1
        if s['kind'] == 'timeout':
            if timeout is not None:
                dt = int(round(timeout / self.tick)) if 'dt' not in s else dt
            self.ticks += dt
            self.rec({"k": "wait", "dt": dt, "ready": False, "want": want, "why": "timeout"})
            return False
        self.ticks += dt
        if st is not None:
            st.cur = s
        self.rec({"k": "wait", "dt": dt, "ready": True, "want": want, "why": s['kind']})
        return True


def _k_wait(self, want, timeout):
    """Selector wait in the C18 transport model: readiness is a property of the kernel buffer only."""
    k = self.k
    if k['bursts'] is None:
        data = self.concretise_stream()
        tr = self.sc['transport']
        sizes = ([] if tr.get('reply_shares_burst') else [self.http_len]) + list(tr.get('bursts', []))
        rest = len(data) - sum(sizes)
        if rest > 0:
            sizes.append(rest)
        k['bursts'] = sizes
        k['dts'] = [0] + list(tr.get('dts', [])) + [1] * len(sizes)
        k['data'] = data
    if k['kbuf'] or k['eof']:
        self.rec({"k": "wait", "dt": 0, "ready": True, "want": want, "why": "kernel"})
        return True
    # about to block: whatever has arrived must have been handed to the client by now
    self.rec({"k": "block", "tbuf": len(k['tbuf']), "consumed": self.consumed, "arrived": k['arrived']})
    self.watch_steps += 1
    if k['bi'] < len(k['bursts']):
        n = k['bursts'][k['bi']]
        dt = k['dts'][k['bi']]
        k['bi'] += 1
        self.ticks += dt
        piece = k['data'][k['arrived']:k['arrived'] + n]
        k['kbuf'] += piece
        k['arrived'] += len(piece)
        self.rec({"k": "arr", "n": len(piece), "upto": k['arrived'] - self.http_len})
        return True
    k['eof'] = True
    self.rec({"k": "arr", "n": 0, "upto": k['arrived'] - self.http_len, "eof": True})
    return True


World.k_wait = _k_wait


class Watchdog(BaseException):
    """The code under test did not terminate within the virtual step budget."""


def install(world):
    """Install the shims for `world` into the imported lomond modules."""
    global W
    m = lomond_modules()
    S, WS, E, SEL, P, F = m['session'], m['websocket'], m['events'], m['selectors'], m['persist'], m['frame']
    for mod, name in ((S, 'socket'), (S, 'ssl'), (S, 'time'), (S, 'threading'), (E, 'time'), (SEL, 'select'),
                      (WS, 'os'), (F, 'make_masking_key'), (P, 'random')):
        _need(mod, name)
    W = world
    S.socket = _shim_socket()
    S.ssl = _shim_ssl()
    S.HAS_SNI = True
    S.time = _SimTime
    E.time = _SimTime
    SEL.select = _shim_select()
    WS.os = _SimOS
    lock_ns = types.SimpleNamespace(Lock=SimLock, RLock=SimLock, Event=threading.Event, local=threading.local, current_thread=threading.current_thread)
    S.threading = lock_ns
    if hasattr(WS, 'threading'):
        WS.threading = lock_ns
    F.make_masking_key = lambda: bytes(world.rng.getrandbits(8) for _ in range(4)) if not world.sc.get('mask') \
        else bytes(world.sc['mask'])
    P.random = lambda: world.next_draw()
    return m


def _next_draw(self):
    if self.draws:
        d = self.draws.pop(0)
        return d[0] / d[1]
    return self.rng.random()


World.next_draw = _next_draw


# ----------------------------------------------------------------------------------------------
# running a scenario
# ----------------------------------------------------------------------------------------------
def event_record(ev):
    name = getattr(ev, 'name', type(ev).__name__)
    r = {"k": "ev", "name": name}
    if name in ('connecting',):
        r['url'] = ev.url
    elif name == 'connected':
        r['url'] = ev.url
        r['proxy'] = 'none' if ev.proxy is None else str(ev.proxy)
    elif name == 'ready':
        r['protocol'] = 'none' if ev.protocol is None else str(ev.protocol)
        r['extensions'] = sorted(str(x) for x in ev.extensions)
    elif name == 'rejected':
        sc = getattr(ev.response, 'status_code', None)
        r['status'] = -1 if sc is None else int(sc)
    elif name == 'protocol_error':
        r['critical'] = bool(ev.critical)
    elif name == 'disconnected':
        r['graceful'] = bool(ev.graceful)
    elif name in ('closed', 'closing'):
        r['code'] = -1 if ev.code is None else int(ev.code)
        reason = ev.reason
        r['reason'] = codec.pv(reason.encode('utf-8') if isinstance(reason, str) else bytes(reason or b''))
    elif name in ('ping', 'pong', 'binary'):
        r['pl'] = codec.pv(ev.data)
        r['isbytes'] = isinstance(ev.data, bytes)
    elif name == 'text':
        t = ev.text
        r['isstr'] = isinstance(t, str)
        if isinstance(t, str):
            u = t.encode('utf-8', 'surrogatepass')
            r['pl'] = codec.pv(u)
            r['cps'] = [ord(c) for c in t] if len(t) <= codec.SMALL else []
        else:
            r['pl'] = codec.pv(bytes(t))
            r['cps'] = []
    elif name in ('backoff', 'back_off'):
        r['delay'] = rat(ev.delay)
    return r


def snapshot_payload(ev):
    """The payload of an event as bytes, for the 'never changes after the yield' clause."""
    name = getattr(ev, 'name', '')
    if name in ('ping', 'pong', 'binary'):
        return bytes(ev.data)
    if name == 'text':
        return ev.text.encode('utf-8', 'surrogatepass') if isinstance(ev.text, str) else bytes(ev.text)
    if name in ('closed', 'closing'):
        r = ev.reason
        return (b'%d:' % (-1 if ev.code is None else ev.code)) + (r.encode('utf-8') if isinstance(r, str) else bytes(r or b''))
    return b''


class _AppAbort(Exception):
    pass


def do_call(world, ws, call, at):
    """Perform one application call, record its result."""
    m = lomond_modules()
    WebSocketError = m['errors'].WebSocketError
    name = call[0]
    args = call[1:]
    res, wserr = 'ok', False
    nlog = len(world.log)
    api = None
    if name == 'api':
        from . import args as argmod
        method, spec = call[1], call[2]
        a, kw, expected, jobj = argmod.build(method, spec, world.rng)
        snap = argmod.snapshot(a, kw)
        api = (method, a, kw, expected, jobj, snap)
    if name == 'other_recv':
        # a SECOND live connection of the same process reads from its own socket while this connection's handler runs: a fresh
        # WebSocket / session pair whose socket hands out Ping frames with a tell-tale payload.  Nothing of it may show up here.
        n = int(args[0]) if args else 64
        other = m['session'].WebsocketSession(m['websocket'].WebSocket('ws://other.example/', proxies={}))

        class _OtherSock(object):
            def recv_into(self, buf, count):
                pat = (b'\x89\x03ZZZ' * (count // 5 + 1))[:count]
                buf[:count] = pat
                return count
        other._sock = _OtherSock()
        got = bytes(other._recv(n))
        world.rec({"k": "other", "what": "recv", "n": len(got)})
        return None
    try:
        if api:
            getattr(ws, api[0])(*api[1], **api[2])
        elif name == 'send_text':
            kw = {} if len(args) < 2 else {'compress': bool(args[1])}
            ws.send_text(args[0] if isinstance(args[0], str) else bytes(args[0]).decode('utf-8'), **kw)
        elif name == 'send_binary':
            kw = {} if len(args) < 2 else {'compress': bool(args[1])}
            ws.send_binary(bytes(args[0]), **kw)
        elif name == 'send_ping':
            ws.send_ping(bytes(args[0])) if args else ws.send_ping()
        elif name == 'send_pong':
            ws.send_pong(bytes(args[0]) if args else b'')
        elif name == 'send_json':
            ws.send_json(args[0])
        elif name == 'close':
            if not args:
                ws.close()
            elif len(args) == 1:
                ws.close(args[0])
            else:
                ws.close(None if args[0] == -1 else args[0], args[1])
        else:
            raise MachineryError('unknown app call %r' % (call,))
    except MachineryError:
        raise
    except Exception as e:
        res = type(e).__name__
        wserr = isinstance(e, WebSocketError)
    nwr = sum(1 for r in world.log[nlog:] if r['k'] == 'wr')
    nwrf = sum(1 for r in world.log[nlog:] if r['k'] == 'wrf')
    r = {"k": "call", "m": name, "res": res, "wserr": wserr, "at": at, "nwr": nwr, "nwrf": nwrf}
    if api:
        method, a, kw, expected, jobj, snap = api
        r['m'] = method
        unchanged = (snap == (a, kw)) and all(type(x) is type(y) for x, y in zip(snap[0], a))
        exp = expected
        if jobj is not None:
            # send_json: the payload must be JSON text for the caller's object
            fr = [x for x in world.log[nlog:] if x['k'] == 'wr' and x.get('what') == 'frame']
            raw = world.last_app_payload
            try:
                ok = raw is not None and json.loads(raw.decode('utf-8')) == jobj.obj and type(json.loads(raw.decode('utf-8'))) is type(jobj.obj)
            except Exception:
                ok = False
            exp = raw if ok else b'<not the JSON text of the object>'
        world.rec({"k": "arg", "pl": codec.pv(exp if exp is not None else b''), "unchanged": bool(unchanged)})
        world.rec(r)
        return r
    if name == 'close':
        r['code'] = 1000 if not args else (-1 if args[0] in (None, -1) else int(args[0]))
        reason = b'goodbye' if len(args) < 2 else (args[1].encode('utf-8') if isinstance(args[1], str) else bytes(args[1]))
        r['reason'] = codec.pv(reason)
    elif name in ('send_text',):
        r['pl'] = codec.pv(args[0].encode('utf-8') if isinstance(args[0], str) else bytes(args[0]))
        r['cflag'] = True if len(args) < 2 else bool(args[1])
    elif name in ('send_binary', 'send_ping', 'send_pong'):
        r['pl'] = codec.pv(bytes(args[0]) if args else b'')
        r['cflag'] = True if len(args) < 2 else bool(args[1])
    world.rec(r)
    return r


def make_session_class(world, kind):
    """A WebsocketSession subclass whose selector class logs close(); kind in poll|select|kqueue."""
    m = lomond_modules()
    SEL, S = m['selectors'], m['session']
    base = {'poll': 'PollSelector', 'select': 'SelectSelector', 'kqueue': 'KQueueSelector'}[kind]
    _need(SEL, base)
    Base = getattr(SEL, base)

    class LoggingSelector(Base):
        def __init__(self, sock):
            world.rec({"k": "sel", "op": "create"})
            world.sels.append({'closed': False})
            self._vidx = len(world.sels) - 1
            super(LoggingSelector, self).__init__(sock)

        def close(self):
            world.sels[self._vidx]['closed'] = True
            world.rec({"k": "sel", "op": "close"})
            return super(LoggingSelector, self).close()

    bs = world.sc.get('buffer_size')

    class Session(S.WebsocketSession):
        _selector_cls = LoggingSelector
    if bs:
        Session.BUFFER_SIZE = bs
    return Session


_COVER = {'seen': set(), 'dir': os.environ.get('VERIF_COVER')}


def _cover_trace(frame, event, arg):
    if frame.f_code.co_filename.startswith(_COVER['root']):
        def local(fr, ev, a):
            if ev == 'line':
                _COVER['seen'].add((fr.f_code.co_filename, fr.f_lineno))
            return local
        _COVER['seen'].add((frame.f_code.co_filename, frame.f_lineno))
        return local
    return None


def run_scenario(sc):
    """Execute one scenario against the real code.  Returns the list of trace records."""
    if _COVER['dir']:
        # optional line-coverage measurement of lomond/ under the checks (VERIF_COVER=<dir>): a development aid for finding
        # code the scenario spaces never reach; not used by the registered commands
        _COVER['root'] = os.path.dirname(lomond_modules()['session'].__file__)
        n0 = len(_COVER['seen'])
        sys.settrace(_cover_trace)
        try:
            return _run_scenario(sc)
        finally:
            sys.settrace(None)
            if len(_COVER['seen']) > n0:
                with open(os.path.join(_COVER['dir'], 'cov.%d' % os.getpid()), 'w') as fh:
                    for f, l in sorted(_COVER['seen']):
                        fh.write('%s:%d\n' % (os.path.basename(f), l))
    return _run_scenario(sc)


def _run_scenario(sc):
    world = World(sc)
    m = install(world)
    WS, P, S = m['websocket'], m['persist'], m['session']
    ws_kwargs = dict(sc.get('ws_kwargs') or {})
    if 'proxies' not in ws_kwargs:
        ws_kwargs['proxies'] = {}
    elif ws_kwargs['proxies'] == 'env':
        ws_kwargs['proxies'] = None          # the mapping comes from HTTP_PROXY / HTTPS_PROXY of the scenario's 'env'
    ws = WS.WebSocket(sc.get('url', 'ws://example.com/'), **ws_kwargs)
    world.ws = ws
    for h, v in sc.get('headers') or []:
        ws.add_header(h.encode('latin-1'), v.encode('latin-1'))
    Session = make_session_class(world, sc.get('selector', 'poll'))
    _ck = sc.get('connect_kwargs') or {}
    _t = lambda v, d: int(round((d if v is None else v) / world.tick)) if (d if v is None else v) else 0
    world.rec({"k": "cfg", "poll": _t(_ck.get('poll', 5.0), 5.0), "ping_rate": _t(_ck.get('ping_rate', 30.0), 30.0),
               "ping_timeout": _t(_ck.get('ping_timeout'), 0), "close_timeout": _t(_ck.get('close_timeout', 30.0), 0),
               "auto_pong": bool(_ck.get('auto_pong', True)), "naddr": (sc.get('conns') or [{}])[0].get('naddr', 1),
               "compress": bool((sc.get('ws_kwargs') or {}).get('compress', False))})
    mode = sc.get('mode', 'connect')
    react = sc.get('react') or {}
    counts = {}
    state = {'idx': 0, 'kept': [], 'abandon': None}
    keep_events = sc.get('keep_events', True)

    def on_event(ev):
        i = state['idx']
        state['idx'] += 1
        r = event_record(ev)
        name = r['name']
        k = counts.get(name, 0)
        counts[name] = k + 1
        r['i'] = i
        world.rec(r)
        if keep_events:
            state['kept'].append((len(world.log) - 1, ev, snapshot_payload(ev)))
        if name in ('disconnected', 'connect_fail'):
            world.end_connection()
        if name == 'ready' and state.get('kept_iters'):
            for old in state.pop('kept_iters'):                     # ... and finalises it while the next connection is running
                old.close()
        for call in (react.get('%s#%d' % (name, k)) or []) + (react.get('@%d' % i) or []):
            if call[0] == 'abandon':
                return call[1]
            do_call(world, ws, call, i)
        return None

    def loop(it):
        for ev in it:
            mech = on_event(ev)
            if mech is not None:
                world.rec({"k": "abandon", "mech": mech, "at": state['idx'] - 1})
                state['abandon'] = mech
                world.abandoning = True
                if mech in ('raise', 'with'):
                    raise _AppAbort()
                if mech == 'close':
                    it.close()
                if mech == 'keep':
                    state.setdefault('kept_iters', []).append(it)      # the application keeps the abandoned iterator alive ...
                return

    def make_iter():
        ck = dict(sc.get('connect_kwargs') or {})
        if mode == 'persist':
            saved = S.WebsocketSession._selector_cls
            S.WebsocketSession._selector_cls = Session._selector_cls
            if sc.get('buffer_size'):
                S.WebsocketSession.BUFFER_SIZE = sc['buffer_size']
            state['restore'] = saved
            pk = dict(sc.get('persist_kwargs') or {})
            orig_connect = ws.connect

            def logged_connect(*a, **k):
                world.rec({"k": "connectcall", "poll": k.get('poll', -1), "ping_rate": k.get('ping_rate', -1),
                           "ping_timeout": -1 if k.get('ping_timeout') is None else k.get('ping_timeout'),
                           "other": sorted(x for x in k if x not in ('poll', 'ping_rate', 'ping_timeout'))})
                if 'session_class' not in k:
                    k['session_class'] = Session
                return orig_connect(*a, **k)
            ws.connect = logged_connect
            if sc.get('exit_event') == 'default':
                # persist() creates its own threading.Event: the shim namespace hands it the scripted event
                # (nobody can set the real one; the script's exit_at then stands for the consumer dropping the iterator)
                P.threading = types.SimpleNamespace(Event=lambda: ExitEvent(world))
                return P.persist(ws, **pk)
            return P.persist(ws, exit_event=ExitEvent(world), **pk)
        return ws.connect(session_class=Session, **ck)

    nconn = sc.get('nconnect', 1) if mode != 'persist' else 1
    try:
        for c in range(nconn):
            try:
                if sc.get('with_block'):
                    with ws:
                        loop(make_iter())
                else:
                    loop(make_iter())
                if state['abandon'] is None:
                    world.rec({"k": "stop"})
            except _AppAbort:
                pass
            except Watchdog as e:
                world.rec({"k": "hang", "why": str(e)})
                break
            except MachineryError:
                raise
            except BaseException as e:
                world.rec({"k": "escape", "exc": type(e).__name__, "msg": str(e)[:100]})
            world.end_connection()
            world.abandoning = False
            if state['abandon'] is not None and c + 1 < nconn:
                state['abandon'] = None
                gc.collect()
    finally:
        if 'restore' in state:
            S.WebsocketSession._selector_cls = state['restore']
            S.WebsocketSession.BUFFER_SIZE = 64 * 1024
    # payload stability: compare every kept event with its snapshot taken at yield time
    for (li, ev, snap) in state['kept']:
        world.log[li]['stable'] = (snapshot_payload(ev) == snap)
    state['kept'] = []
    ev = None
    if sc.get('collect', state['abandon'] is not None):
        gc.collect()
    world.rec({"k": "end",
               "socks": [{"id": s.id, "closed": s.closed, "alive": world.sockrefs[s.id]() is not None, "handed": s.handed}
                         for s in world.socks],
               "sels": [{"closed": s['closed']} for s in world.sels]})
    return world.log, ws
