"""Concrete arguments for API-call cases chosen by the specification (spec/GenC03.tla)."""
import copy
import json
import struct

PLANE_CHARS = {"ascii": ["a", "Z", " ", "~", "\x00", "\x7f"], "two": ["é", "߿", "\u0080"],
               "three": ["€", "ࠀ", "￿", "퟿", ""], "four": ["\U00010000", "\U0001d11e", "\U0010ffff"],
               "mixed": ["a", "é", "€", "\U0001d11e", "\x00", "￿"]}


def text_of_utf8_len(n, plane, rng):
    """A str whose UTF-8 encoding has exactly n bytes (padded with ASCII when the plane's widths do not divide n)."""
    out, size = [], 0
    chars = PLANE_CHARS[plane]
    while size < n:
        c = rng.choice(chars)
        w = len(c.encode('utf-8', 'surrogatepass'))
        if size + w > n:
            c, w = 'x', 1
        out.append(c)
        size += w
    return ''.join(out)


def data_of_len(n, kind, rng):
    if kind == 'zeros':
        return bytes(n)
    if kind == 'allbytes':
        return bytes((i * 7 + 3) % 256 for i in range(n))
    return bytes(rng.getrandbits(8) for _ in range(n))


class JsonObj(object):
    """The object the caller asked send_json to encode (wrapped: None is a legitimate JSON value)."""

    def __init__(self, obj):
        self.obj = obj


def build(method, spec, rng):
    """Returns (args, kwargs, expected payload bytes or None, json_obj or None)."""
    cls, n, plane, flag, code = spec['cls'], spec['len'], spec['plane'], spec.get('flag', True), spec.get('code', 0)
    if spec.get('fixed'):
        import random
        rng = random.Random(4242)        # the same content every time: a repeated call can be back-referenced by the compressor
    kwargs = {}
    if cls == 'wrongtype':
        wrong = {"swap": (b'abc' if method == 'send_text' else u'abc'), "none": None, "int": 42, "bytearray": bytearray(b'abc'),
                 "list": [1, 2, 3]}[plane]
        if method == 'send_text' and plane == 'bytearray':
            wrong = bytearray(b'abc')
        return [wrong], kwargs, None, None
    if method == 'send_text':
        t = text_of_utf8_len(n, plane, rng)
        if not flag:
            kwargs['compress'] = False
        return [t], kwargs, t.encode('utf-8'), None
    if method == 'send_binary':
        d = data_of_len(n, plane, rng)
        if not flag:
            kwargs['compress'] = False
        return [d], kwargs, d, None
    if method == 'send_json':
        if cls == 'conflict':
            # a positional object AND keyword arguments: refused, whatever the positional object is (None, 0 and {} included)
            pos = {"none_kw": None, "zero_kw": 0, "dict_kw": {"a": 1}, "emptydict_kw": {}}[plane]
            return [pos], {"k": 1}, None, None
        if plane in ('none', 'false', 'zero', 'emptystr', 'emptylist'):
            obj = {"none": None, "false": False, "zero": 0, "emptystr": "", "emptylist": []}[plane]
            return [obj], kwargs, None, JsonObj(obj)
        if plane == 'dict':
            obj = {"k%d" % i: i for i in range(n)}
        elif plane == 'list':
            obj = list(range(n))
        elif plane == 'unicode':
            obj = {"t": text_of_utf8_len(n, 'mixed', rng).replace('\x00', 'z')}
        else:
            kw = {"k%d" % i: "v" for i in range(max(1, n))}
            return [], kw, None, JsonObj(kw)
        return [obj], kwargs, None, JsonObj(obj)
    if method in ('send_ping', 'send_pong'):
        d = data_of_len(n, plane, rng)
        return [d], kwargs, d, None
    if method == 'close':
        if plane == 'default':
            return [], kwargs, struct.pack('!H', 1000) + b'goodbye', None
        if plane == 'bytes':
            reason = data_of_len(n, 'zeros', rng).replace(b'\x00', b'r')
        elif plane == 'two':
            reason = text_of_utf8_len(n, 'two', rng)
        else:
            reason = text_of_utf8_len(n, 'ascii', rng).replace('\x00', 'q')
        rb = reason if isinstance(reason, bytes) else reason.encode('utf-8')
        c = None if code == -1 else code
        return [c, reason], kwargs, (b'' if c is None else struct.pack('!H', c) + rb), None
    raise ValueError(method)


def snapshot(args, kwargs):
    return copy.deepcopy((args, kwargs))
