"""Deterministic thread scheduler for the real send path (C11, C12).

Each application / loop thread is a real Python thread running real lomond code under sys.settrace, but exactly one
runs at a time; control can be handed over at every `line` event inside lomond/ (optionally every opcode), whenever a
shim lock is contended, and between the two halves of a (split) sendall.  Schedules are enumerated by stateless search
with a pre-emption bound: every execution starts from scratch and follows a prefix of forced choices, then runs the
current thread until it finishes or blocks.
"""
import os
import sys
import threading
import types

from . import codec
from . import world as W

CUR = None      # the scheduler of the execution in progress
_FROZEN = False


class Deadlock(Exception):
    pass


class Sched(object):
    def __init__(self, prefix, opcode=False, max_steps=20000, rng=None, pswitch=0.01):
        self.rng = rng
        self.stall_timeout = 90
        self.pswitch = pswitch
        self.prefix = list(prefix)
        self.opcode = opcode
        self.max_steps = max_steps
        self.state = {}          # tid -> ready | blocked | done
        self.sem = {}
        self.threads = {}
        self.cv = threading.Condition()
        self.turn = 'main'
        self.choices = []        # (enabled tuple, chosen) per step
        self.log = []
        self.tl = threading.local()
        self.errors = []
        self.lomond_dir = os.path.dirname(W.lomond_modules()['session'].__file__)

    def me(self):
        return self.tl.tid

    def spawn(self, tid, fn):
        self.state[tid] = 'ready'

        def body():
            self.tl.tid = tid
            self._wait_turn(tid)
            sys.settrace(self._global_trace)
            try:
                fn()
            except BaseException as e:        # harness-level failure inside a thread program
                self.errors.append('%s: %r' % (tid, e))
            finally:
                sys.settrace(None)
                self.state[tid] = 'done'
                self._handover(tid)
        t = threading.Thread(target=body, name=str(tid))
        t.daemon = True
        self.threads[tid] = t
        t.start()

    def _local_trace(self, frame, event, arg):
        if event == 'line' or (event == 'opcode' and self.opcode):
            self.yield_point()
        return self._local_trace

    def _global_trace(self, frame, event, arg):
        if frame.f_code.co_filename.startswith(self.lomond_dir):
            if self.opcode:
                frame.f_trace_opcodes = True
            return self._local_trace
        return None

    # The scheduling decision is taken by whichever thread is running (only one runs at a time), so that
    # continuing the same thread costs no OS-level context switch.
    def _decide(self):
        en = [t for t in sorted(self.state) if self.state[t] == 'ready']
        if not en:
            return None
        i = len(self.choices)
        if i >= self.max_steps:
            self.log.append({"k": "hang"})
            return None
        if i < len(self.prefix) and self.prefix[i] in en:
            ch = self.prefix[i]
        elif self.rng is not None and len(en) > 1 and self.rng.random() < self.pswitch:
            ch = self.rng.choice(en)
        elif self.cur in en:
            ch = self.cur
        else:
            ch = en[0]
        self.choices.append((tuple(en), ch))
        self.cur = ch
        return ch

    # whose turn it is: exactly one thread (or "main") runs; the others wait on the condition variable
    def _switch_to(self, nxt):
        with self.cv:
            self.turn = nxt
            self.cv.notify_all()

    def _wait_turn(self, tid):
        with self.cv:
            while self.turn != tid:
                self.cv.wait()

    def _handover(self, me):
        """Decide who runs next; returns True when `me` simply continues."""
        nxt = self._decide()
        if nxt is None:
            if any(s == 'blocked' for s in self.state.values()) and not any(x.get('k') == 'hang' for x in self.log):
                self.log.append({"k": "deadlock"})
            self._switch_to('main')
            return False
        if nxt != me:
            self._switch_to(nxt)
            return False
        return True

    def yield_point(self):
        tid = self.tl.tid
        if not self._handover(tid):
            self._wait_turn(tid)

    def block(self):
        tid = self.tl.tid
        self.state[tid] = 'blocked'
        self._handover(tid)
        self._wait_turn(tid)

    def run(self):
        self.cur = None
        first = self._decide()
        if first is not None:
            self._switch_to(first)
            with self.cv:
                ok = self.cv.wait_for(lambda: self.turn == 'main', timeout=self.stall_timeout)
            if not ok:
                # the scheduler itself is stuck (its threads are abandoned as daemons); never a verdict about the code
                self.log.append({"k": "stall"})
        return self.choices


class ShimLock(object):
    """threading.Lock replacement that hands control to the scheduler instead of blocking the OS thread."""

    def __init__(self):
        self.s = CUR
        self.owner = None
        self.waiters = []

    def acquire(self, blocking=True, timeout=-1):
        s = self.s
        me = s.me() if hasattr(s.tl, 'tid') else 'main'
        while self.owner is not None:
            if me == 'main':
                raise Deadlock('main thread would block')
            self.waiters.append(me)
            s.block()
        self.owner = me
        return True

    def release(self):
        self.owner = None
        for w in self.waiters:
            self.s.state[w] = 'ready'
        self.waiters = []

    def __enter__(self):
        self.acquire()
        return self

    def __exit__(self, *a):
        self.release()

    def locked(self):
        return self.owner is not None


class SplitSock(object):
    """A socket whose sendall hands the bytes over in two steps with a scheduling point between them."""

    def __init__(self):
        self.s = CUR
        self.halves = []

    def sendall(self, data):
        data = bytes(data)
        me = self.s.me()
        h = max(1, len(data) // 2)
        self.halves.append((me, 1, data[:h]))
        self.s.log.append({"k": "half", "th": me, "part": 1, "n": h})
        self.s.yield_point()
        self.halves.append((me, 2, data[h:]))
        self.s.log.append({"k": "half", "th": me, "part": 2, "n": len(data) - h})

    def shutdown(self, how):
        pass

    def close(self):
        pass

    def fileno(self):
        return 99


def install():
    m = W.lomond_modules()
    for mod, name in ((m['session'], 'threading'), (m['websocket'], 'threading')):
        if not hasattr(mod, name):
            if mod is m['websocket']:
                continue         # (the pinned snapshot had no lock in websocket.py)
            raise W.MachineryError('shim point %s.%s is gone' % (mod.__name__, name))
    ns = types.SimpleNamespace(Lock=ShimLock, RLock=ShimLock, Event=threading.Event, local=threading.local)
    m['session'].threading = ns
    if hasattr(m['websocket'], 'threading'):
        m['websocket'].threading = ns
    m['session'].time = types.SimpleNamespace(time=lambda: 4096.0)
    m['events'].time = types.SimpleNamespace(time=lambda: 4096.0)
    keys = [0]

    def mask():
        keys[0] += 1
        return bytes([keys[0] % 256, 7, 9, 11])
    m['frame'].make_masking_key = mask
    return m


def execute(program, prefix, opcode=False, rng=None):
    """Run one schedule of a thread program.  `program` = {"compress": bool, "threads": {tid: [op, ...]}} with ops
    ["send_text", str] | ["send_binary", [bytes]] | ["send_ping", [..]] | ["close"] | ["close_empty"] | ["loop_close_echo_empty"] | ["loop_inflate", [..]] | ["loop_on_disconnect"] | ["loop_pong", [..]] | ["loop_autoping"] |
    ["loop_close_echo", code].  Returns (records, choices)."""
    global CUR
    m = install()
    WS, S, errors = m['websocket'], m['session'], m['errors']
    sched = Sched(prefix, opcode=opcode, rng=rng, max_steps=200000 if opcode else 20000)
    CUR = sched
    ws = WS.WebSocket('ws://example.com/', proxies={}, compress=bool(program.get('compress')))
    sess = S.WebsocketSession(ws)
    ws.state.session = sess
    sock = SplitSock()
    sess._sock = sock
    sess._ready = True
    sess._start_time = 4000.0
    sess._next_ping = 0.0
    sess._last_pong = 0.0
    if program.get('compress'):
        ws.state.compression = m['compression'].Deflate.from_options(dict(program.get('ext_options') or {}))
    calls = []

    def make(tid, ops):
        def body():
            for i, op in enumerate(ops):
                name = op[0]
                res = 'ok'
                wserr = False
                pl = b''
                try:
                    if name == 'send_text':
                        pl = op[1].encode('utf-8')
                        ws.send_text(op[1])
                    elif name == 'send_binary':
                        pl = bytes(op[1])
                        ws.send_binary(pl)
                    elif name == 'send_ping':
                        pl = bytes(op[1])
                        ws.send_ping(pl)
                    elif name == 'close':
                        pl = b'\x03\xe8goodbye'
                        ws.close()
                    elif name == 'close_empty':
                        pl = b''
                        ws.close(None)                      # a Close frame without status code: empty payload
                    elif name == 'loop_close_echo_empty':
                        msg = m['message'].Close(None, '')  # the server's Close carried no status: the echo has an empty payload
                        pl = b''
                        for _ in ws._on_close(msg):
                            pass
                    elif name == 'loop_on_disconnect':
                        ws.on_disconnect()                  # what feed()'s GeneratorExit handler does when the consumer abandons the iterator
                    elif name == 'loop_inflate':
                        # the loop thread decodes a compressed message of the server (Message.build -> Deflate.decompress); the server
                        # compresses every message afresh (server_no_context_takeover is part of the program's negotiated options)
                        import zlib
                        co = zlib.compressobj(zlib.Z_DEFAULT_COMPRESSION, zlib.DEFLATED, -15)
                        wire = (co.compress(bytes(op[1])) + co.flush(zlib.Z_SYNC_FLUSH))[:-4]
                        got = ws.state.compression.decompress([m['frame'].Frame(1, payload=wire, rsv1=1)])
                        if bytes(got) != bytes(op[1]):
                            raise W.MachineryError('loop_inflate: the client did not restore the server message')
                    elif name == 'loop_pong':
                        pl = bytes(op[1])
                        sess._send_pong(m['events'].Ping(pl))
                    elif name == 'loop_autoping':
                        sess._check_auto_ping(1.0, 10.0 + i)
                    elif name == 'loop_close_echo':
                        msg = m['message'].Close(op[1], 'bye')
                        pl = bytes([op[1] >> 8, op[1] & 255]) + b'bye'
                        for _ in ws._on_close(msg):
                            pass
                    else:
                        raise W.MachineryError('unknown op %r' % (op,))
                except errors.WebSocketError as e:
                    res, wserr = type(e).__name__, True
                except W.MachineryError:
                    raise
                except Exception as e:
                    res = type(e).__name__
                calls.append({"k": "tcall", "th": tid, "seq": i, "m": name, "res": res, "wserr": wserr, "pl": codec.pv(pl)})
        return body
    # Garbage of earlier executions (parsers, sessions: lomond objects with __del__ / generators written in traced files) must not be
    # finalised inside a scheduled thread: its lines would be extra, unpredictable scheduling points.  Collect now, in this untraced
    # thread, and keep the collector off while the schedule runs.
    import gc
    global _FROZEN
    gc.collect()
    if not _FROZEN:
        gc.freeze()          # everything that exists now is permanent: the per-execution collections only look at what executions create
        _FROZEN = True
    gc.disable()
    try:
        for tid, ops in sorted(program['threads'].items()):
            sched.spawn(tid, make(tid, ops))
        choices = sched.run()
    finally:
        gc.enable()
    if sched.errors:
        raise W.MachineryError('thread program failed: %s' % sched.errors[:2])
    # decode the wire (independent decoder; compressed messages inflated by a context-takeover peer in wire order)
    data = b''.join(h[2] for h in sock.halves)
    frames, rest = codec.decode_client_frames(data)
    import zlib
    peer = zlib.decompressobj(-15)
    recs = list(sched.log)
    for f in frames:
        app = f['payload']
        ok = True
        if f['rsv1']:
            try:
                app = peer.decompress(f['payload'] + b'\x00\x00\xff\xff')
            except zlib.error:
                ok = False
                app = b''
        recs.append({"k": "wf", "op": f['op'], "rsv1": f['rsv1'], "fin": f['fin'], "masked": f['masked'],
                     "pl": codec.pv(app) if ok else {"n": [0, 0], "s": [], "h": "INFLATE-FAILED"}})
    recs.append({"k": "wire", "whole": len(rest) == 0, "nframes": len(frames), "rest": len(rest)})
    recs.extend(sorted(calls, key=lambda c: (c['th'], c['seq'])))
    return recs, choices


def explore(program, bound, opcode=False, limit=None, start=None):
    """All schedules with at most `bound` pre-emptions (stateless DFS), optionally below a given (prefix, used).
    Yields (prefix, records)."""
    stack = [start or ([], 0)]
    seen = set()
    n = 0
    while stack:
        prefix, used = stack.pop()
        key = tuple(prefix)
        if key in seen:
            continue
        seen.add(key)
        recs, choices = execute(program, prefix, opcode=opcode)
        n += 1
        yield prefix, recs
        if limit and n >= limit:
            return
        chosen = [c[1] for c in choices]
        for k in range(len(prefix), len(choices)):
            en, ch = choices[k]
            if len(en) < 2:
                continue
            cur = chosen[k - 1] if k > 0 else None
            for t in en:
                if t == ch:
                    continue
                cost = 1 if (cur in en) else 0       # leaving a runnable current thread is a pre-emption
                if used + cost <= bound:
                    stack.append((chosen[:k] + [t], used + cost))


def children(program, bound, opcode=False):
    """The root schedule and its first-level alternatives [(prefix, used)] (for distributing the search)."""
    recs, choices = execute(program, [], opcode=opcode)
    chosen = [c[1] for c in choices]
    out = []
    for k in range(len(choices)):
        en, ch = choices[k]
        cur = chosen[k - 1] if k > 0 else None
        for t in en:
            if t != ch:
                cost = 1 if (cur in en) else 0
                if cost <= bound:
                    out.append((chosen[:k] + [t], cost))
    return recs, out
