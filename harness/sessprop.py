"""Driver shared by the properties decided on the session-level model (spec/Lomond.tla):
   TLC checks the monitor on the model and prints every behaviour; each behaviour is replayed into the
   real code; the recorded traces are compared with the model's prediction (drift, informational) and
   judged by the same TLA+ monitor evaluated by TLC (verdict)."""
import json

from . import pipeline, replay, tlc


def cfg_text(c, invariants=('MonPrefix', 'MonFinal', 'Emit'), spec='Spec', properties=(), constraint=None):
    def s(v):
        if isinstance(v, bool):
            return 'TRUE' if v else 'FALSE'
        if isinstance(v, (set, frozenset, list, tuple)):
            return '{' + ', '.join(s(x) for x in sorted(v, key=str)) + '}'
        if isinstance(v, str):
            return '"%s"' % v
        return str(v)
    lines = ['SPECIFICATION ' + spec, 'CONSTANTS']
    for k in ('HttpItems', 'Items', 'Cfg'):
        lines.append(' %s <- %s' % (k, c[k]))
    for k in ('MaxItems', 'ChunkMax', 'MaxIdle', 'Dts', 'Faults', 'NAddr', 'Reacts', 'ReactAt', 'MaxReacts',
              'AbandonAt', 'Conforming', 'AfterClose'):
        lines.append(' %s = %s' % (k, s(c[k])))
    for inv in invariants:
        lines.append('INVARIANT ' + inv)
    for p in properties:
        lines.append('PROPERTY ' + p)
    if constraint:
        lines.append('CONSTRAINT ' + constraint)
    lines.append('CHECK_DEADLOCK FALSE')
    return '\n'.join(lines) + '\n'


DEFAULTS = dict(MaxItems=2, ChunkMax=1, MaxIdle=0, Dts={0}, Faults=set(), NAddr=1, Reacts={"none"}, ReactAt=set(),
                MaxReacts=0, AbandonAt=set(), Conforming=False, AfterClose=False)


def slim(tr, kinds=None, drop=('headers', 'msg', 'url', 'host', 'port', 'key', 'len'), keep_reads=False):
    out = []
    lastrd = None
    if not keep_reads:
        for j, r in enumerate(tr):
            if r['k'] == 'rd' and r.get('what') == 'data':
                lastrd = j
    for j, r in enumerate(tr):
        if kinds is not None and r['k'] not in kinds:
            continue
        if r['k'] == 'wait' and not keep_reads:
            continue
        if r['k'] == 'rd' and r.get('what') == 'data' and not keep_reads and j != lastrd:
            continue        # only the last data read matters (number of items delivered)
        if any(k in r for k in drop):
            r = {k: v for k, v in r.items() if k not in drop}
        out.append(r)
    return out


def last_connection(tr):
    """The records of the last connection of a multi-connection run (plus the configuration record)."""
    idx = [i for i, r in enumerate(tr) if r['k'] == 'ev' and r['name'] == 'connecting']
    if len(idx) < 2:
        return tr
    return [r for r in tr[:idx[-1]] if r['k'] == 'cfg'] + tr[idx[-1]:]


def run_model_instances(run, mc_module, monitor, instances, variants=None, kinds=None, judge_field='.tr',
                        post=None, max_exec=None, extra_results=None, keep_reads=False):
    """instances: list of dicts {label, consts (overrides of DEFAULTS + HttpItems/Items/Cfg names), cfg (python dict
    of the Cfg record), simulate (optional 'num=..'), depth}.
    variants(scenario, behaviour) -> list of (tag, scenario) executed for each behaviour (default: as is).
    Returns list of (tag, behaviour, scenario, log)."""
    results = []
    from concurrent.futures import ThreadPoolExecutor
    par = min(len(instances), 8) if len(instances) > 3 else 1

    def gen(inst):
        consts = dict(DEFAULTS)
        consts.update(inst['consts'])
        text = inst.get('raw_cfg') or cfg_text(consts, invariants=inst.get('invariants', ('MonPrefix', 'MonFinal', 'Emit')))
        return pipeline.generate(inst.get('module', mc_module), text, simulate=inst.get('simulate'), depth=inst.get('depth'),
                                 seed=run.seed if inst.get('simulate') else None, timeout=inst.get('timeout', 1800),
                                 workers=(max(2, pipeline.NPROC // par) if par > 1 else None))
    if par > 1:
        with ThreadPoolExecutor(max_workers=par) as ex:
            generated = list(ex.map(gen, instances))
    else:
        generated = None
    for ii, inst in enumerate(instances):
        consts = dict(DEFAULTS)
        consts.update(inst['consts'])
        res, beh = generated[ii] if generated else gen(inst)
        mcm = inst.get('module', mc_module)
        run.add_tlc('model %s %s' % (mcm[0] if isinstance(mcm, tuple) else mcm, inst['label']), res)
        if res.violated:
            raise pipeline.MachineryFailure(
                'the monitor %s rejects a behaviour of the model (%s, instance %s): model and monitor disagree\n%s\n%s'
                % (monitor, res.violated, inst['label'], [t for t in res.lines if isinstance(t, str) and 'MODEL-REJECT' in t][:3], _last_obs(res.raw)))
        if inst.get('simulate'):
            seen = set()
            uniq = []
            for b in beh:
                key = json.dumps(b['script'], sort_keys=True)
                if key not in seen:
                    seen.add(key)
                    uniq.append(b)
            beh = uniq
        nbeh = len(beh)
        if max_exec and len(beh) > max_exec:
            import random
            rng = random.Random(run.seed)
            beh = rng.sample(beh, max_exec)
            run.note('instance %s: %d of %d model behaviours replayed (seeded sample)' % (inst['label'], max_exec, nbeh))
            run.exhaustive_broken = True
        jobs = []
        for b in beh:
            sc = replay.script_to_scenario(b['script'], inst['cfg'], naddr=consts['NAddr'])
            for tag, sc2 in (variants(sc, b) if variants else [('base', sc)]):
                jobs.append((tag, b, sc2))
        logs = pipeline.execute([j[2] for j in jobs])
        ndrift = 0
        first = None
        for (tag, b, sc), log in zip(jobs, logs):
            if (tag == 'base' or tag.startswith('=')) and b.get('obs'):
                d = replay.drift(b['obs'], log)
                if d:
                    ndrift += 1
                    first = first or d
            results.append((inst['label'] + '/' + tag, b, sc, log))
        run.cov.setdefault('instances', []).append({"label": inst['label'], "behaviours": len(beh), "executions": len(jobs),
                                                    "model_drift": ndrift})
        if ndrift:
            run.note('model-drift %s %d traces (instance %s) first=%s' % (run.prop, ndrift, inst['label'], json.dumps(first)[:400]))
    results.extend(extra_results or [])
    run.evaluations += len(results)
    run.traces += len(results)
    # judge
    traces = [{"id": i, "tr": slim(last_connection(r[3]) if r[2].get('judge_last_connection') else r[3], kinds, keep_reads=keep_reads)}
              for i, r in enumerate(results)]
    if post:
        traces = [post(t, results[i]) for i, t in enumerate(traces)]
    rej, states, wall = pipeline.judge(monitor, traces, field=judge_field)
    run.states += states
    run.transitions += states
    run.tlc_runs.append({"run": "judge " + monitor, "traces": len(traces), "distinct": states, "wall_s": round(wall, 1)})
    return results, rej


def standard_run(prop, tier, seed, mc_module, monitor, instances, kinds, rule, nontrivial, anchors=None,
                 variants=None, post=None, judge_field='.tr', exhaustive=None, extra=None, known_sig=None,
                 sample_keys=('ev',), max_exec=None, random_scripts=None, keep_reads=False, need_actions=()):
    """The whole pipeline for one property decided on the session model."""
    r = pipeline.Run(prop, tier, seed)
    r.rule = rule
    r.assumptions = ['simulated socket/selector/clock stand in for the OS (harness/world.py); payload bytes of symbolic '
                     'blobs are chosen by the seeded concretiser',
                     'bounds of each model instance are listed under coverage.detail.instances / tlc_runs']
    if extra:
        extra(r)
    extra_results = []
    if random_scripts:
        # code -> spec: seeded random scripts beyond the model bounds; TLC validates each recorded execution as a behaviour of
        # Lomond.tla (spec/TraceLomond.tla) and the property monitor judges it like every other trace
        from . import tracevalid
        for rs in random_scripts:
            scs, logs, acc = tracevalid.validate(r, tier, rs['cfgname'], rs['cfg'], rs['n'][0 if tier == 'quick' else 1], mc='MC_Sess',
                                                 items=rs['items'], http=rs.get('http', 'HttpOk'), faults=rs.get('faults'),
                                                 after_close=rs.get('after_close', False))
            extra_results.extend(('random-script/' + rs['cfgname'], {"script": None, "obs": None}, sc, log) for sc, log in zip(scs, logs))
    if max_exec is None and tier == 'thorough':
        max_exec = 40000        # behaviours replayed per model instance (seeded sample when the model has more)
    results, rej = run_model_instances(r, mc_module, monitor, instances, variants=variants, kinds=kinds, post=post,
                                       judge_field=judge_field, max_exec=max_exec, extra_results=extra_results, keep_reads=keep_reads)
    nt = set()
    seen = set()
    for label, b, sc, log in results:
        key = nontrivial(log, sc)
        if key is not None:
            nt.add(key)
        if anchors:
            seen.update(anchors(log, sc))
    r.nontrivial = len(nt)
    r.exhaustive = ((tier == 'quick') if exhaustive is None else exhaustive) and not getattr(r, 'exhaustive_broken', False)
    r.cov['anchors_seen'] = sorted(seen)
    never = sorted(a for a in need_actions if not r.actions.get(a))
    r.cov['model_actions_never_taken'] = sorted(a for a in ('Start', 'Connect', 'SendRequest', 'MakeSelector', 'LoopTest', 'Wait', 'Chunk', 'RegPoll', 'RegPing',
                                                           'RegPingTimeout', 'RegCloseTimeout', 'Recv', 'FeedNext', 'CloseFin', 'CloseEcho', 'ErrClose',
                                                           'ExitNonGraceful', 'ExitGraceful', 'Finish', 'AppReact') if r.actions and not r.actions.get(a))
    if never:
        seen.add('!model actions never taken: %s' % never)
        raise pipeline.MachineryFailure('vacuous model run: the actions %s of spec/Lomond.tla were never taken (TLC -coverage)' % never)
    interesting = [x for x in results if nontrivial(x[3], x[2]) is not None] or results
    picks = [interesting[0], interesting[len(interesting) // 2], interesting[-1]] if interesting else []
    for label, b, sc, log in picks:
        r.samples.append({"instance": label, "scenario": sc,
                          "trace": [x for x in slim(log, set(sample_keys) | {'call'})][:40]})
    for tid, clause in rej:
        label, b, sc, log = results[tid]
        sig = known_sig(clause, sc, log) if known_sig else None
        r.violation(clause, {"instance": label, "scenario": sc, "trace": slim(log, kinds, keep_reads=keep_reads)}, known_sig=sig)
    return r, results, seen


def standard_replay(prop, monitor, kinds, path, post=None, judge_field='.tr', keep_reads=False):
    from . import world
    case = json.load(open(path))['case']
    log, ws = world.run_scenario(case['scenario'])
    t = {"id": 0, "tr": slim(log, kinds, keep_reads=keep_reads)}
    if post:
        t = post(t, ('replay', None, case['scenario'], log))
    rej, _, _ = pipeline.judge(monitor, [t], field=judge_field)
    for x in slim(log, kinds):
        if x['k'] not in ('srv',):
            print(json.dumps(x))
    if rej:
        print('VIOLATION property=%s replay=%s clause=%s' % (prop, path, rej[0][1]))
        return 1
    print('%s replay: ok' % prop)
    return 0


WRAPPER = """---- MODULE %(name)s ----
EXTENDS MC_Sess, %(monitor)s
MonPrefix == TRUE
MonFinal == pc = "done" => (%(verdict)s = "ok" \\/ (PrintT("MODEL-REJECT " \\o %(verdict)s) /\\ FALSE))
====
"""


def wrapper(monitor, verdict='Verdict(obs)', extra_defs='', suffix=''):
    name = 'MCW_' + monitor + suffix
    text = WRAPPER % {"name": name, "monitor": monitor, "verdict": verdict}
    if extra_defs:
        text = text.replace('====\n', extra_defs + '\n====\n')
    return (name, text)


def via_tls(sc):
    """The same scenario over wss:// (TLS wrapping of the simulated socket)."""
    import copy
    sc2 = copy.deepcopy(sc)
    sc2['url'] = 'wss://example.com/'
    return sc2


def via_proxy(sc):
    """The same scenario through an HTTP proxy that answers 200 (the CONNECT request is the first write)."""
    import copy
    sc2 = copy.deepcopy(sc)
    sc2['ws_kwargs'] = dict(sc2.get('ws_kwargs') or {}, proxies={"http": "http://proxy.local:3128", "https": "http://proxy.local:3128"})
    conn = sc2['conns'][0]
    conn['writes'] = ['ok'] + list(conn.get('writes') or [])
    conn['proxy_reply'] = {"cls": "ok200_headers", "cut": "two"}
    return sc2


def sampled(sc, b, every=7):
    """Deterministic 1-in-`every` selection of behaviours for the more expensive variants."""
    import hashlib
    return int(hashlib.sha1(json.dumps(b.get('script'), sort_keys=True).encode()).hexdigest(), 16) % every == 0


def reseg(sc, how):
    """Variant of a scenario with the same server byte stream cut differently into reads:
    every data step is replaced by one 'drain' step placed where the first data step was."""
    import copy
    sc2 = copy.deepcopy(sc)
    conn = sc2['conns'][0]
    steps = []
    done = False
    for s in conn.get('steps', []):
        if s['kind'] == 'data':
            if not done:
                steps.append({"kind": "drain", "bytes": how} if how != 'rand' else {"kind": "drain", "bytes": "rand", "max": 7})
                done = True
        else:
            steps.append(s)
    conn['steps'] = steps
    return sc2


def with_second_connection(sc, at=('text', 'ping', 'binary', 'pong', 'ready', 'poll')):
    """Variant: while the handler of an event of this connection runs, a second live connection of the same process reads from its
    own socket (call `other_recv`): per-connection state (receive buffer, parser, validator ...) must not be shared."""
    import copy
    sc2 = copy.deepcopy(sc)
    react = sc2.setdefault('react', {})
    for name in at:
        for k in range(3):
            react.setdefault('%s#%d' % (name, k), []).insert(0, ["other_recv", 64])
    return sc2


def zero_timeouts(sc):
    """Variant: disabled time-outs spelled 0 / 0.0 instead of None (the documentation names both spellings)."""
    import copy
    sc2 = copy.deepcopy(sc)
    ck = sc2.setdefault('connect_kwargs', {})
    if ck.get('ping_timeout') is None:
        ck['ping_timeout'] = 0
    if ck.get('close_timeout') is None:
        ck['close_timeout'] = 0.0
    return sc2


def via_deflate(sc, how='rand'):
    """Variant of a scenario on a connection that negotiated permessage-deflate: every complete, plain data message of the server
    stream is sent compressed by the RFC 7692 peer (same number of fragments, Ping / Pong between the fragments if the original had
    control frames there); incomplete messages and everything else stay as they are (uncompressed messages are legal on such a
    connection).  Reads are re-cut by bytes because frame sizes change."""
    import copy
    sc2 = reseg(sc, how)

    def plain(it):
        return it.get('t') == 'f' and 'pl' in it and not any(it.get(k) for k in ('rsv1', 'rsv2', 'rsv3', 'mask', 'lenform', 'announce', 'z'))
    for conn in sc2['conns']:
        st = conn.get('stream') or []
        out, i = [], 0
        while i < len(st):
            it = st[i]
            if it.get('t') == 'http':
                it = dict(it)
                if it.get('v', 'ok') == 'ok' and not it.get('ext'):
                    it['ext'] = 'permessage-deflate'
                out.append(it)
                i += 1
                continue
            if plain(it) and it['op'] in (1, 2):
                frames, ctl, complete, k = [it], 0, it.get('fin', 1) == 1, i + 1
                while not complete and k < len(st):
                    nx = st[k]
                    if plain(nx) and nx['op'] == 0:
                        frames.append(nx)
                        complete = nx.get('fin', 1) == 1
                    elif plain(nx) and nx['op'] in (9, 10) and nx.get('fin', 1) == 1 and len(nx['pl']) <= 125:
                        ctl += 1
                    else:
                        break
                    k += 1
                if complete:
                    data = [b for f in frames for b in f['pl']]
                    out.append({"t": "zmsg", "op": it['op'], "data": data, "z": True, "frags": len(frames), "ctl": ctl > 0})
                    i = k
                    continue
            out.append(it)
            i += 1
        conn['stream'] = out
    sc2['ws_kwargs'] = dict(sc2.get('ws_kwargs') or {}, compress=True)
    sc2['peer'] = {"swb": 15, "cwb": 15, "s_nct": False, "c_nct": False}
    return sc2


def _last_obs(raw):
    """The obs variable of the last state of a TLC error trace, compacted."""
    i = raw.rfind('/\\ obs = ')
    if i < 0:
        return ''
    j = raw.find('\n/\\ ', i + 5)
    import re
    return re.sub(r'\s+', ' ', raw[i:j if j > 0 else i + 6000])[:6000]
