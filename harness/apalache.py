"""Apalache runs for the unbounded (inductive-invariant) supplements.  Never a source of verdicts about the code: an unexpected
outcome is reported as a note in the evidence file."""
import os
import shutil
import subprocess

from . import tlc


def inductive(module, broken=None, cinit='ConstInit', inv='IndInv', timeout=600):
    """Init => IndInv (length 0) and IndInv /\\ Next => IndInv' (length 1) for spec/<module>.tla; `broken` = {label: (old, new)}
    text replacements that must make the step fail (negative controls).  Returns {label: OK | VIOLATED | ERROR | not run}."""
    d = tlc.scratch_dir()
    out = {}
    try:
        src = open(os.path.join(tlc.SPEC_DIR, module + '.tla')).read()
        open(os.path.join(d, module + '.tla'), 'w').write(src)
        runs = [('base', module, ['--init=Init', '--length=0']), ('step', module, ['--init=IndInit', '--length=1'])]
        for label, (old, new) in sorted((broken or {}).items()):
            name = module + '_' + label
            if old not in src:
                out[label] = 'ERROR: control text not found'
                continue
            open(os.path.join(d, name + '.tla'), 'w').write(src.replace('MODULE ' + module, 'MODULE ' + name).replace(old, new))
            runs.append((label, name, ['--init=IndInit', '--length=1']))
        for label, mod, args in runs:
            try:
                p = subprocess.run(['apalache-mc', 'check', '--cinit=' + cinit, '--inv=' + inv, '--out-dir=' + os.path.join(d, 'out')] + args + [mod + '.tla'],
                                   cwd=d, stdout=subprocess.PIPE, stderr=subprocess.STDOUT, timeout=timeout,
                                   env=dict(os.environ, TMPDIR=d))      # (the wrapper script leaves a SANY* directory in $TMPDIR)
                txt = p.stdout.decode('utf-8', 'replace')
                out[label] = 'OK' if 'EXITCODE: OK' in txt else ('VIOLATED' if 'EXITCODE: ERROR (12)' in txt else 'ERROR')
            except Exception as e:
                out[label] = 'not run: %r' % (e,)
    finally:
        shutil.rmtree(d, ignore_errors=True)
    return out
