"""Concretiser: abstract stream items (as chosen by the TLA+ model) -> the bytes the simulated server sends.

Every concretised item is also logged as a `srv` record, so a trace is self-contained: the monitors see what
the server really sent (with payload values) next to what the client did.
"""
import struct

from . import codec


def _swapcase_differs(s):
    t = s.swapcase()
    return t if t != s else None


def http_reply_cls(item, key, world):
    """A reply of spec/Handshake.tla's abstract classes, in one of the equivalent spellings RFC 7230 allows
    (header order, name casing, optional whitespace, obs-fold, unrelated duplicate headers), chosen by item['spell']."""
    import random
    rng = random.Random(item.get('spell', 0))
    st = item['status']
    line = {"101": "HTTP/1.1 101 Switching Protocols", "101nr": "HTTP/1.1 101", "200": "HTTP/1.1 200 OK",
            "400": "HTTP/1.1 400 Bad Request", "garbage": "ICY xyz OK"}[st]
    good = codec.accept_for(key if key is not None else b'x').decode('ascii')
    ac = item['accept']
    accept = {"exact": good, "missing": None, "other_key": codec.accept_for(b'dGhlIHNhbXBsZSBub25jZQ==').decode('ascii'),
              "case_swapped": good.swapcase(), "lower_cased": good.lower(), "upper_cased": good.upper(),
              "truncated": good[:-1], "extended": good + 'A', "empty": ''}[ac]
    if ac in ('case_swapped', 'lower_cased', 'upper_cased') and accept == good:
        accept = good[:-2] + ('b=' if good[-2] != 'b' else 'c=')      # (digest without letters: fall back to a wrong value)
    hdrs = []
    # (a wrong Upgrade value ends up in the Rejected reason: in the spelled variants it carries characters that mean something to
    # str.format / %-formatting - a header value is data, never a template)
    sp_ = item.get('spell', 0)
    other = "h2c" if not sp_ else ["{websocket}", "{0} %s", "websocket}", "%(x)s {} h2c"][(sp_ - 1) % 4]
    up = {"websocket": "websocket", "WebSocket": "WebSocket", "other": other, "missing": None}[item['upgrade']]
    if up is not None:
        hdrs.append(['Upgrade', up])
    hdrs.append(['Connection', 'Upgrade'])
    if accept is not None:
        hdrs.append(['Sec-WebSocket-Accept', accept])
    if item.get('proto'):
        hdrs.append(['Sec-WebSocket-Protocol', item['proto']])
    if item.get('ext'):
        hdrs.append(['Sec-WebSocket-Extensions', item['ext']])
    spell = item.get('spell', 0)
    if spell:
        hdrs.append(['Server', 'sim'])
        hdrs.append(['X-Dup', 'a'])
        hdrs.append(['X-Dup', 'b'])
        rng.shuffle(hdrs)
    lines = [line]
    for name, val in hdrs:
        if spell:
            name = rng.choice([name, name.lower(), name.upper(), name.swapcase()])
            form = rng.randrange(4)
            if form == 0:
                lines.append('%s:%s' % (name, val))
            elif form == 1:
                lines.append('%s: \t %s  ' % (name, val))
            elif form == 2 and val != '':
                lines.append('%s:\r\n  %s' % (name, val))          # obs-fold: value on a continuation line
            else:
                lines.append('%s: %s' % (name, val))
        else:
            lines.append('%s: %s' % (name, val))
    size = item.get('size', 'normal')
    if size != 'normal':
        target = {"exact16k": 16384, "big_term": 16385 + (spell % 600), "big_unterm": 16390 + (spell % 600)}[size]
        base = len('\r\n'.join(lines).encode('latin-1')) + 4
        fill = target - base - len('\r\nX-Pad: ')
        lines.insert(1 + (spell % max(1, len(lines) - 1)) if spell else len(lines), 'X-Pad: ' + 'p' * fill)
    data = '\r\n'.join(lines).encode('latin-1') + b'\r\n\r\n'
    if size == 'big_unterm':
        data = data[:-4]
    return data


def http_reply(item, key, world):
    """Build an HTTP upgrade reply from an abstract description."""
    v = item.get('v', 'ok')
    if v == 'cls':
        return http_reply_cls(item, key, world)
    status = item.get('status', 101 if v in ('ok', 'badaccept', 'noaccept', 'noupgrade', 'badupgrade') else 200)
    reason = item.get('reason_phrase', 'Switching Protocols' if status == 101 else 'Nope')
    lines = ['HTTP/1.1 %d %s' % (status, reason) if reason != '' else 'HTTP/1.1 %d' % status]
    hdrs = []
    up = item.get('upgrade', 'websocket' if v not in ('noupgrade',) else None)
    if v == 'badupgrade':
        up = 'h2c'
    if up is not None:
        hdrs.append(('Upgrade', up))
    hdrs.append(('Connection', 'Upgrade'))
    acc = None
    if v not in ('noaccept',):
        good = codec.accept_for(key if key is not None else b'x').decode('ascii')
        acc = good
        if v == 'badaccept':
            acc = codec.accept_for(b'AAAAAAAAAAAAAAAAAAAAAA==').decode('ascii')
            if acc == good:
                acc = codec.accept_for(b'BAAAAAAAAAAAAAAAAAAAAA==').decode('ascii')
        if 'accept' in item:
            acc = item['accept']
    if acc is not None:
        hdrs.append(('Sec-WebSocket-Accept', acc))
    if item.get('ext'):
        hdrs.append(('Sec-WebSocket-Extensions', item['ext']))
    if item.get('proto'):
        hdrs.append(('Sec-WebSocket-Protocol', item['proto']))
    for h, val in item.get('extra', []):
        hdrs.append((h, val))
    for h, val in hdrs:
        lines.append('%s: %s' % (h, val))
    pad = item.get('pad', 0)
    if pad:
        # filler header making the header block `pad` bytes long in total (terminator included)
        base = len('\r\n'.join(lines).encode('latin-1')) + 4
        fill = pad - base - len('\r\nX-Pad: ')
        if fill >= 0:
            lines.append('X-Pad: ' + 'p' * fill)
    data = '\r\n'.join(lines).encode('latin-1') + b'\r\n\r\n'
    if item.get('unterminated'):
        data = data[:-4]
    return data


def frame_bytes(item, world):
    op = item['op']
    if 'blob' in item:
        n = item['blob']
        kind = item.get('blobkind', 'bin')
        if kind == 'ascii':
            payload = bytes(0x20 + world.rng.randrange(0x5F) for _ in range(n))
        elif kind == 'allbytes':
            payload = bytes((i * 7 + 3) % 256 for i in range(n))
        else:
            payload = bytes(world.rng.getrandbits(8) for _ in range(n))
    else:
        payload = bytes(item.get('pl', []))
    if item.get('z'):
        payload = world.server_deflate(payload)
    announce = None
    if item.get('announce') == 'huge63':
        announce = 1 << 63
    elif item.get('announce') == 'huge64':
        announce = (1 << 64) - 1
    elif isinstance(item.get('announce'), int):
        announce = item['announce']
    lf = item.get('lenform') or None
    data = codec.encode_frame(op, payload, fin=item.get('fin', 1), rsv1=item.get('rsv1', 0), rsv2=item.get('rsv2', 0),
                              rsv3=item.get('rsv3', 0), mask=bool(item.get('mask', False)), lenform=lf,
                              announce=announce, key=bytes(item.get('key', [1, 2, 3, 4])))
    return data, payload


def stream_to_bytes(items, key, world):
    out = bytearray()
    ends = []
    acc = b''
    for i, it in enumerate(items):
        t = it.get('t')
        if t == 'http':
            b = http_reply(it, key, world)
            world.rec({"k": "srv", "i": i, "it": "http", "v": it.get('v', 'ok'), "len": len(b)})
            if i == 0:
                world.http_len = len(b)
        elif t == 'f':
            b, payload = frame_bytes(it, world)
            if it['op'] in (1, 2):
                acc = payload       # plain concatenation of the data message this frame belongs to
            elif it['op'] == 0:
                acc = acc + payload
            world.rec({"k": "srv", "i": i, "it": "f", "op": it['op'], "fin": it.get('fin', 1), "rsv1": it.get('rsv1', 0),
                       "rsv2": it.get('rsv2', 0), "rsv3": it.get('rsv3', 0), "mask": bool(it.get('mask', False)),
                       "pl": codec.pv(payload), "acc": codec.pv(acc), "orig": codec.pv(acc), "len": len(b),
                       "off": len(out) + len(b) - len(payload) - getattr(world, 'http_len', 0),
                       "end": len(out) + len(b) - getattr(world, 'http_len', 0),
                       "ann": "huge" if str(it.get('announce', '')).startswith('huge') else "len"})
        elif t == 'zmsg':
            # a data message of the simulated RFC 7692 peer: compressed over the peer's context (or sent plain), cut into fragments
            payload = bytes(it['data'])
            wire = world.server_deflate(payload) if it.get('z') else payload
            nf = max(1, int(it.get('frags', 1)))
            cuts = sorted(set(world.rng.randrange(0, len(wire) + 1) for _ in range(nf - 1))) if nf > 1 else []
            pieces = [wire[a:b_] for a, b_ in zip([0] + cuts, cuts + [len(wire)])]
            b = b''
            for j, piece in enumerate(pieces):
                fb = codec.encode_frame(it['op'] if j == 0 else 0, piece, fin=1 if j == len(pieces) - 1 else 0,
                                        rsv1=1 if (it.get('z') and j == 0) else 0)
                acc = piece if j == 0 else acc + piece
                if j < len(pieces) - 1:
                    ends.append(len(out) + len(b) + len(fb))
                world.rec({"k": "srv", "i": len(ends), "it": "f", "op": it['op'] if j == 0 else 0, "fin": 1 if j == len(pieces) - 1 else 0,
                           "rsv1": 1 if (it.get('z') and j == 0) else 0, "rsv2": 0, "rsv3": 0, "mask": False, "pl": codec.pv(piece),
                           "acc": codec.pv(acc), "orig": codec.pv(payload), "zorig": bool(it.get('z')), "len": len(fb), "ann": "len",
                           "off": len(out) + len(b) + len(fb) - len(piece) - getattr(world, 'http_len', 0),
                           "end": len(out) + len(b) + len(fb) - getattr(world, 'http_len', 0)})
                b += fb
                if it.get('ctl') and j < len(pieces) - 1:
                    # a control frame between two fragments of the (possibly compressed) message
                    cop = 9 if j % 2 == 0 else 10
                    cpl = bytes([0x70 + j % 16])
                    cf = codec.encode_frame(cop, cpl)
                    ends.append(len(out) + len(b) + len(cf))
                    world.rec({"k": "srv", "i": len(ends), "it": "f", "op": cop, "fin": 1, "rsv1": 0, "rsv2": 0, "rsv3": 0, "mask": False,
                               "pl": codec.pv(cpl), "acc": codec.pv(cpl), "orig": codec.pv(cpl), "len": len(cf), "ann": "len",
                               "off": len(out) + len(b) + len(cf) - len(cpl) - getattr(world, 'http_len', 0),
                               "end": len(out) + len(b) + len(cf) - getattr(world, 'http_len', 0)})
                    b += cf
        elif t == 'raw':
            b = bytes(it['b'])
            world.rec({"k": "srv", "i": i, "it": "raw", "len": len(b)})
        else:
            raise ValueError('unknown stream item %r' % (it,))
        out += b
        ends.append(len(out))
    return bytes(out), ends


def proxy_reply_bytes(r, world):
    if isinstance(r, dict):
        if 'b' in r:
            return bytes(r['b'])
        status = r.get('status', 200)
        txt = 'HTTP/1.1 %d %s\r\n' % (status, r.get('phrase', 'Connection established'))
        for h, v in r.get('extra', []):
            txt += '%s: %s\r\n' % (h, v)
        return (txt + '\r\n').encode('latin-1')
    if isinstance(r, (bytes, bytearray)):
        return bytes(r)
    return bytes(r)


def proxy_reads(spec):
    """Expand an abstract proxy answer {cls, cut} into the list of recv() results and the length of the complete answer."""
    cls, cut = spec['cls'], spec.get('cut', 'one')
    tail = []
    complete = True
    if cls == 'ok200':
        data = b'HTTP/1.1 200 Connection established\r\n\r\n'
    elif cls == 'ok200_headers':
        data = b'HTTP/1.1 200 OK\r\nProxy-Agent: sim/1.0\r\nVia: 1.1 sim\r\nX-Fold: a\r\n b\r\n\r\n'
    elif cls == 'st407':
        data = b'HTTP/1.1 407 Proxy Authentication Required\r\nProxy-Authenticate: Basic realm="sim"\r\n\r\n'
    elif cls == 'st500':
        data = b'HTTP/1.1 500 Internal Server Error\r\n\r\n'
    elif cls == 'st201':
        data = b'HTTP/1.1 201 Created\r\n\r\n'
    elif cls == 'garbage':
        data = b'\x00\x01\x02 not http at all\r\n\r\n'
    elif cls == 'unterminated_eof':
        data, tail, complete = b'HTTP/1.1 200 OK\r\nX-Header: value', ['eof'], False
    elif cls == 'oversize':
        data = b'HTTP/1.1 200 OK\r\nX-Pad: ' + b'p' * 17000 + b'\r\n\r\n'
    elif cls == 'oversize_unterminated':
        data, tail, complete = b'HTTP/1.1 200 OK\r\nX-Pad: ' + b'p' * 17000, ['eof'], False
    elif cls == 'immediate_eof':
        data, tail, complete = b'', ['eof'], False
    elif cls == 'recv_error':
        data, tail, complete = b'', ['error'], False
    elif cls == 'recv_boom':
        data, tail, complete = b'', ['boom'], False
    elif cls == 'partial_then_error':
        data, tail, complete = b'HTTP/1.1 200', ['error'], False
    else:
        raise ValueError(cls)
    if not data:
        chunks = []
    elif cut == 'bytewise' and len(data) < 400:
        chunks = [data[i:i + 1] for i in range(len(data))]
    elif cut == 'two' or cut == 'bytewise':
        h = max(1, len(data) // 2)
        chunks = [data[:h], data[h:]] if len(data) > 1 else [data]
    else:
        chunks = [data]
    return [{"b": list(c)} for c in chunks] + tail, (len(data) if complete else 0)
