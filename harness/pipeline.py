"""Shared pipeline: TLC generation -> execution against the real code -> TLC judging -> evidence."""
import hashlib
import json
import multiprocessing
import os
import sys
import time
import traceback

from . import tlc
from . import replay

VERIF = os.path.dirname(os.path.dirname(os.path.abspath(__file__)))
OUT = os.environ.get('VERIF_OUT') or VERIF        # evidence/ and replays/ live here (the self-test redirects them)
NPROC = min(16, os.cpu_count() or 4)


# ---------------------------------------------------------------------------------------------------
# execution (in worker processes: the world uses module globals)
# ---------------------------------------------------------------------------------------------------
def _exec_one(job):
    from . import world
    idx, sc = job
    import signal

    def on_alarm(signum, frame):
        raise world.Watchdog('wall-clock limit of one scenario exceeded')
    try:
        signal.signal(signal.SIGALRM, on_alarm)
        signal.alarm(int(sc.get('wall_limit', 120)))
    except ValueError:
        pass                      # not in the main thread
    try:
        log, ws = world.run_scenario(sc)
        return idx, log, None
    except world.MachineryError as e:
        return idx, None, 'MACHINERY: %s' % e
    except BaseException as e:   # harness bug
        return idx, None, 'HARNESS: %s\n%s' % (e, traceback.format_exc())
    finally:
        try:
            signal.alarm(0)
        except ValueError:
            pass


def execute(scenarios, nproc=None, fn=_exec_one, chunksize=None):
    """Run every scenario; returns list of logs (same order).  Raises on harness failure."""
    jobs = list(enumerate(scenarios))
    nproc = nproc or NPROC
    out = [None] * len(jobs)
    if len(jobs) < 64 or nproc == 1:
        results = map(fn, jobs)
        for idx, log, err in results:
            if err:
                raise MachineryFailure(err)
            out[idx] = log
        return out
    ctx = multiprocessing.get_context('fork')
    import gc
    gc.collect()
    gc.freeze()      # keep the parent's heap out of the children's collections (gc.collect() per scenario)
    try:
        return _execute_pool(ctx, nproc, fn, jobs, out, chunksize)
    finally:
        gc.unfreeze()


def _execute_pool(ctx, nproc, fn, jobs, out, chunksize):
    with ctx.Pool(nproc) as pool:
        for idx, log, err in pool.imap_unordered(fn, jobs, chunksize=chunksize or max(1, len(jobs) // (nproc * 8))):
            if err:
                pool.terminate()
                raise MachineryFailure(err)
            out[idx] = log
    return out


class MachineryFailure(Exception):
    pass


# ---------------------------------------------------------------------------------------------------
# TLC as generator of behaviours
# ---------------------------------------------------------------------------------------------------
def generate(module, cfg_text, extra_modules=None, timeout=1800, simulate=None, depth=None, seed=None, workers=None):
    """Run the model; every JSON object printed at a final state is one behaviour {script, obs}."""
    res = tlc.run(module, cfg_text, extra_modules=extra_modules, timeout=timeout, simulate=simulate, depth=depth, seed=seed,
                  workers=workers, heap='6g' if workers is None else '3g', coverage=not simulate)
    if res.violated:
        return res, None
    behaviours = [l for l in res.lines if isinstance(l, dict)]
    return res, behaviours


# ---------------------------------------------------------------------------------------------------
# TLC as judge of recorded traces
# ---------------------------------------------------------------------------------------------------
JUDGE_TEMPLATE = """---- MODULE %(name)s ----
EXTENDS %(monitor)s, Json, IOUtils
Traces == ndJsonDeserialize(IOEnv.TRACE_FILE)
NB == %(buckets)d
VARIABLE tid
Init == tid = 0
Next == \\/ tid = 0 /\\ tid' \\in { -b : b \\in 1..NB }
        \\/ tid < 0 /\\ tid' \\in { t \\in 1..Len(Traces) : (t %% NB) + 1 = -tid }
JSpec == Init /\\ [][Next]_tid
Judge == tid <= 0 \\/ LET v == %(verdict)s(Traces[tid]%(field)s) IN v = "ok" \\/ PrintT(ToJson([reject |-> Traces[tid].id, clause |-> v]))
====
"""
JUDGE_CFG = "SPECIFICATION JSpec\nINVARIANT Judge\nCHECK_DEADLOCK FALSE\n"


def _judge_batch(args):
    name, text, part, timeout = args
    d = tlc.scratch_dir()
    try:
        path = os.path.join(d, 'traces.ndjson')
        with open(path, 'w') as fh:
            for t in part:
                fh.write(json.dumps(tlc.tlcify(t), separators=(',', ':')) + '\n')
        res = tlc.run((name, text), JUDGE_CFG, env={"TRACE_FILE": path}, timeout=timeout, workers=2, heap='2g')
        if res.violated:
            return None, 'judge run failed: %s' % res.error
        rej = []
        for l in res.lines:
            if isinstance(l, dict) and 'reject' in l:
                rej.append((l['reject'], l['clause']))
        if len(rej) != res.raw.count('\\"reject\\"'):
            return None, 'could not parse every rejection printed by the judge (%d of %d)' % (len(rej), res.raw.count('\\"reject\\"'))
        if res.distinct != len(part) + NPROC + 1:
            return None, 'judge visited %d states for %d traces' % (res.distinct, len(part))
        return (rej, res.distinct), None
    except tlc.TLCError as e:
        return None, str(e)
    finally:
        import shutil
        shutil.rmtree(d, ignore_errors=True)


def judge(monitor, traces, verdict='Verdict', field='.tr', ids=None, timeout=3600, batch=None):
    """Evaluate the TLA+ monitor `monitor`!Verdict over each trace with TLC (batches run as parallel TLC
    processes).  `traces` is a list of JSON-able objects having an `id` and the field the verdict is applied to.
    Returns (rejections: list of (id, clause), states, wall)."""
    from concurrent.futures import ThreadPoolExecutor
    t0 = time.time()
    name = 'Judge_' + monitor
    text = JUDGE_TEMPLATE % {"name": name, "monitor": monitor, "buckets": NPROC, "verdict": verdict, "field": field}
    if not traces:
        return [], 0, 0.0
    nb = max(1, min(NPROC // 2, (len(traces) + 199) // 200))
    size = (len(traces) + nb - 1) // nb
    if batch:
        size = min(size, batch)
    parts = [traces[i:i + size] for i in range(0, len(traces), size)]
    rej, states = [], 0
    with ThreadPoolExecutor(max_workers=max(1, NPROC // 2)) as ex:
        for out, err in ex.map(_judge_batch, [(name, text, p, timeout) for p in parts]):
            if err:
                raise MachineryFailure(err)
            rej.extend(out[0])
            states += out[1]
    return rej, states, time.time() - t0


# ---------------------------------------------------------------------------------------------------
# bookkeeping of one check run
# ---------------------------------------------------------------------------------------------------
class Run(object):
    def __init__(self, prop, tier, seed):
        self.prop = prop
        self.tier = tier
        self.seed = seed
        self.t0 = time.time()
        self.states = 0
        self.transitions = 0
        self.traces = 0
        self.evaluations = 0
        self.nontrivial = 0
        self.samples = []
        self.violations = []      # (clause, replay path)
        self.known = []
        self.notes = []
        self.cov = {}
        self.assumptions = []
        self.exhaustive = False
        self.rule = ''
        self.tlc_runs = []
        self.actions = {}
        import glob
        for old_replay in glob.glob(os.path.join(OUT, 'replays', '%s-*.json' % prop)):
            try:
                os.unlink(old_replay)           # replay files of earlier runs of this check
            except OSError:
                pass
        self.known_findings = [k for k in json.load(open(os.path.join(VERIF, 'known_findings.json')))
                               if k['property'] == prop and k['status'] == 'known']

    def add_tlc(self, label, res):
        self.states += res.distinct
        self.transitions += res.states
        entry = {"run": label, "states_generated": res.states, "distinct": res.distinct, "depth": res.depth, "wall_s": round(res.wall, 1)}
        if res.coverage:
            entry["action_coverage"] = dict(res.coverage)       # TLC -coverage 1: how often each action of the spec was taken
            for a, n in res.coverage.items():
                self.actions[a] = self.actions.get(a, 0) + n
        self.tlc_runs.append(entry)

    def note(self, msg):
        self.notes.append(msg)
        sys.stderr.write('NOTE %s\n' % msg)

    def violation(self, clause, payload, known_sig=None):
        """Record a violation; payload is written to a replay file.  known_sig: dict compared with known findings."""
        if known_sig is not None:
            for k in self.known_findings:
                if self._sig_match(k['signature'], known_sig):
                    if k['what'] not in [x[0] for x in self.known]:
                        self.known.append((k['what'], clause))
                    return
        h = hashlib.sha1(json.dumps(payload, sort_keys=True, default=str).encode()).hexdigest()[:12]
        path = os.path.join(OUT, 'replays', '%s-%s.json' % (self.prop, h))
        os.makedirs(os.path.dirname(path), exist_ok=True)
        if len(self.violations) < 20:
            with open(path, 'w') as fh:
                json.dump({"property": self.prop, "clause": clause, "seed": self.seed, "case": payload}, fh, indent=1, default=str)
        self.violations.append((clause, path))

    @staticmethod
    def _sig_match(sig, got):
        for k, v in sig.items():
            g = got.get(k)
            if isinstance(v, list):
                if g not in v:
                    return False
            elif g != v:
                return False
        return True

    def finish(self, vacuous=None):
        wall = time.time() - self.t0
        ev = {
            "property_id": self.prop, "tier": self.tier, "seed": self.seed, "level": "model_checking",
            "coverage": {
                "states": max(self.states, 0), "transitions": max(self.transitions, 0),
                "traces_validated_against_impl": self.traces,
                "evaluations": self.evaluations, "distinct_nontrivial": self.nontrivial,
                "rule": self.rule, "samples": self.samples[:6] or ["(none)"], "exhaustive": self.exhaustive,
                "tlc_runs": self.tlc_runs, "detail": self.cov, "notes": self.notes[:20],
                "known_findings_reported": [k[0] for k in self.known],
            },
            "assumptions": self.assumptions,
            "wall_s": round(wall, 2),
            "violations": len(self.violations),
        }
        os.makedirs(os.path.join(OUT, 'evidence'), exist_ok=True)
        with open(os.path.join(OUT, 'evidence', self.prop + '.json'), 'w') as fh:
            json.dump(ev, fh, indent=1, default=str)
        for what, clause in self.known:
            print('KNOWN-FINDING: property=%s %s' % (self.prop, what))
        shown = set()
        for clause, path in self.violations:
            if clause in shown and len(shown) > 0:
                continue
            shown.add(clause)
            print('VIOLATION property=%s replay=%s clause=%s' % (self.prop, path, clause))
        if self.violations:
            print('%s: %d violation(s) in %d executions [%s tier, %.1fs]' % (self.prop, len(self.violations), self.evaluations, self.tier, wall))
            return 1
        if vacuous:
            print('%s: VACUOUS RUN (%s) - machinery failure' % (self.prop, vacuous))
            return 2
        print('%s: ok - %d executions of the real code judged, %d model states, %d non-trivial [%s tier, %.1fs]'
              % (self.prop, self.evaluations, self.states, self.nontrivial, self.tier, wall))
        return 0
