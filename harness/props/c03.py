"""C03 - every frame the client writes is a valid client frame that round-trips."""
import json

from .. import sessprop, pipeline, tlc

KINDS = {'wr', 'wrf', 'call', 'arg'}
MASKS = {"zero": [0, 0, 0, 0], "ones": [255, 255, 255, 255], "lanes": [1, 2, 4, 8], "random": None}


def scenario(case, mask, seed, reconnect=False, nct=False, cwb=None):
    sc = {"conns": [{"stream": [{"t": "http", "v": "ok"}]}], "seed": seed,
          "react": {"ready#0": [["api", case['m'], {"cls": case['cls'], "len": case['len'], "plane": case['plane'],
                                                    "flag": case['flag'], "code": case['code']}]]},
          "connect_kwargs": {"ping_rate": 0, "close_timeout": None}, "peer_inflate": True}
    if case['neg']:
        sc['conns'][0]['stream'][0]['ext'] = 'permessage-deflate'
        sc['ws_kwargs'] = {"compress": True}
    if MASKS[mask] is not None:
        sc['mask'] = MASKS[mask]
    if nct or cwb:
        # negotiated with client_no_context_takeover / a small client_max_window_bits: the same call is made twice with the same content, a
        # peer that inflates every message afresh / with exactly that window must restore the second one (judged: the records of the second call)
        sc['conns'][0]['stream'][0]['ext'] = 'permessage-deflate; client_no_context_takeover' if nct else 'permessage-deflate; client_max_window_bits=%d' % cwb
        sc['ws_kwargs'] = {"compress": True}
        sc['peer'] = {"swb": 15, "cwb": cwb or 15, "s_nct": False, "c_nct": bool(nct)}
        call = sc['react']['ready#0'][0]
        call[2]['fixed'] = True
        sc['react']['ready#0'] = [call, [call[0], call[1], dict(call[2])]]
    if reconnect:
        # first connection on the same object: compression negotiated, dropped by the server; the call is made on the second one
        sc['conns'] = [{"stream": [{"t": "http", "v": "ok", "ext": "permessage-deflate"}]}] + sc['conns']
        sc['nconnect'] = 2
        sc['ws_kwargs'] = {"compress": True}
        sc['react'] = {"ready#1": sc['react']['ready#0']}
    return sc


def run(tier, seed):
    q = tier == 'quick'
    r = pipeline.Run('C03', tier, seed)
    r.rule = ('every row of the API table of spec/GenC03.tla (6 methods x argument classes valid / wrong type / oversize x payload lengths '
              '0,1,125,126,127,65535,65536,65537 x Unicode planes / byte patterns x close codes and reason lengths 0,1,122,123 / 124,125,200 '
              'x compression negotiated? x compress flag) executed on a Ready connection with %d masking keys each (compressible calls also repeated under client_no_context_takeover, and - 3000 to 20000 bytes long - under client_max_window_bits 9, 10, 12); non-trivial = distinct '
              'cases in which a frame was written' % (2 if q else 4))
    r.assumptions = ['the independent server-side decoder (harness/codec.py) and zlib peer are trusted',
                     'send_json: the written text must parse back to the caller\'s object (json.loads)']
    res, _ = pipeline.generate('GenC03', "SPECIFICATION Spec\nINVARIANT EmitCases\nCHECK_DEADLOCK FALSE\n")
    r.add_tlc('GenC03 (data-level ASSUMEs + API table)', res)
    cases = [l for l in res.lines if isinstance(l, dict) and 'case' in l]
    if not cases:
        raise pipeline.MachineryFailure('GenC03 printed no cases')
    masks = ['random', 'lanes'] if q else list(MASKS)
    jobs = []
    for c in cases:
        for mk in masks:
            jobs.append((c, mk, scenario(c['case'], mk, seed + len(jobs))))
    for c in cases:
        if not c['case']['neg'] and c['case']['m'] in ('send_text', 'send_binary') and c['case']['len'] in (1, 126):
            jobs.append((c, 'reconnect', scenario(c['case'], 'random', seed + len(jobs), reconnect=True)))
    for c in cases:
        if c['case']['neg'] and c['case']['flag'] and c['case']['cls'] == 'valid' and c['case']['m'] in ('send_text', 'send_binary', 'send_json') \
                and c['case']['len'] in (125, 126, 127):
            jobs.append((c, 'nct', scenario(c['case'], 'random', seed + len(jobs), nct=True)))
        if c['case']['neg'] and c['case']['flag'] and c['case']['cls'] == 'valid' and c['case']['m'] in ('send_text', 'send_binary') and c['case']['len'] == 127:
            for cwb, n in ((9, 3000), (10, 5000), (12, 20000)):
                big = dict(c, case=dict(c['case'], len=n))          # the second copy lies further back than a 2^cwb window reaches
                jobs.append((big, 'nct', scenario(big['case'], 'random', seed + len(jobs), cwb=cwb)))
    logs = pipeline.execute([j[2] for j in jobs])
    r.evaluations = len(jobs)
    r.traces = len(jobs)
    traces = []
    nt = set()
    for i, ((c, mk, sc), log) in enumerate(zip(jobs, logs)):
        # records of the API call: from the Ready event up to and including the call record
        end = next((k for k, x in enumerate(log) if x['k'] == 'call'), len(log) - 1)
        start = max([k for k, x in enumerate(log[:end]) if x['k'] == 'ev' and x['name'] == 'ready'] or [len(log)])
        if mk == 'nct':
            callpos = [k for k, x in enumerate(log) if x['k'] == 'call']
            if len(callpos) == 2:
                start, end = callpos[0] + 1, callpos[1]
        tr = sessprop.slim(log[start:end + 1], KINDS, drop=('headers', 'msg'))
        traces.append({"id": i, "case": c['case'], "exp": c['exp'], "tr": tr})
        if any(x['k'] == 'wr' for x in tr):
            nt.add(json.dumps(c['case'], sort_keys=True))
    rej, states, wall = pipeline.judge('Mon_C03', traces, field='')
    r.states += states
    r.transitions += states
    r.tlc_runs.append({"run": "judge Mon_C03", "objects": len(traces), "wall_s": round(wall, 1)})
    r.nontrivial = len(nt)
    r.exhaustive = True
    r.cov['cases'] = len(cases)
    r.cov['masks'] = masks
    for i in (0, len(jobs) // 3, 2 * len(jobs) // 3):
        r.samples.append({"case": jobs[i][0]['case'], "expected": jobs[i][0]['exp'], "records": [
            {k: v for k, v in x.items() if k in ('k', 'op', 'fin', 'rsv1', 'lenform', 'minimal', 'res', 'nwr', 'unchanged')} for x in traces[i]['tr']]})
    for tid, clause in rej:
        c, mk, sc = jobs[tid]
        r.violation(clause, {"case": c['case'], "exp": c['exp'], "mask": mk, "scenario": sc, "records": traces[tid]['tr']},
                    known_sig={"class": c['case']['cls'], "m": c['case']['m']})
    return r.finish()


def replay(path, seed):
    from .. import world
    case = json.load(open(path))['case']
    log, _ = world.run_scenario(case['scenario'])
    start = next((k for k, x in enumerate(log) if x['k'] == 'ev' and x['name'] == 'ready'), len(log))
    end = next((k for k, x in enumerate(log) if x['k'] == 'call'), len(log) - 1)
    callpos = [k for k, x in enumerate(log) if x['k'] == 'call']
    if case.get('mask') == 'nct' and len(callpos) == 2:
        start, end = callpos[0] + 1, callpos[1]
    tr = sessprop.slim(log[start:end + 1], KINDS, drop=('headers', 'msg'))
    for x in tr:
        print(json.dumps({k: v for k, v in x.items() if k not in ('pl', 'raw')}))
    rej, _, _ = pipeline.judge('Mon_C03', [{"id": 0, "case": case['case'], "exp": case['exp'], "tr": tr}], field='')
    if rej:
        print('VIOLATION property=C03 replay=%s clause=%s' % (path, rej[0][1]))
        return 1
    print('C03 replay: ok')
    return 0
