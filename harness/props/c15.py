"""C15 - keep-alive, time-outs and polling fire when, and only when, they should."""
import copy
import itertools

from .. import sessprop

KINDS = {'cfg', 'ev', 'wr', 'call', 'rd', 'escape', 'hang'}


def grid(tier):
    if tier == 'quick':
        return [(2, 0, 0, 0), (2, 2, 2, 3), (2, 3, 4, 0), (2, 5, 0, 3), (3, 2, 4, 3), (3, 3, 2, 0), (3, 5, 2, 3), (3, 0, 4, 3)]
    return list(itertools.product((2, 3), (0, 2, 3, 5), (0, 2, 4), (0, 3)))


def instances(tier):
    q = tier == 'quick'
    out = []
    for (p, r, t, c) in grid(tier):
        name = 'p%dr%dt%dc%d' % (p, r, t, c)
        defs = 'CfgGen == [poll |-> %d, ping_rate |-> %d, ping_timeout |-> %d, close_timeout |-> %d, auto_pong |-> TRUE]\n' % (p, r, t, c)
        defs += 'C15Items == { F(10, 1, <<>>), F(1, 1, <<97>>), F(8, 1, <<3, 232>>), F(2, 1, <<1, 2, 3, 4, 5, 6, 7, 8, 9, 10, 11, 12>>) }\n'
        out.append({"label": name, "cfg": {"poll": p, "ping_rate": r, "ping_timeout": t, "close_timeout": c, "auto_pong": True},
                    "module": sessprop.wrapper('Mon_C15', extra_defs=defs, suffix='_' + name),
                    "consts": dict(HttpItems='HttpOk', Items='C15Items', Cfg='CfgGen', MaxItems=2, ChunkMax=1,
                                   MaxIdle=4 if q else 5, Dts={1}, Reacts={"none", "close"},
                                   ReactAt={"poll", "ready"}, MaxReacts=1)})
    for (p, r, t, c) in ((2, 0, 0, 3), (3, 0, 0, 3)):
        name = 'p%dr%dt%dc%d-repeated-close' % (p, r, t, c)
        defs = 'CfgGen == [poll |-> %d, ping_rate |-> %d, ping_timeout |-> %d, close_timeout |-> %d, auto_pong |-> TRUE]\n' % (p, r, t, c)
        defs += 'C15Items == { F(1, 1, <<97>>) }\n'
        out.append({"label": name, "cfg": {"poll": p, "ping_rate": r, "ping_timeout": t, "close_timeout": c, "auto_pong": True},
                    "module": sessprop.wrapper('Mon_C15', extra_defs=defs, suffix='_' + name.replace('-', '_')),
                    "consts": dict(HttpItems='HttpOk', Items='C15Items', Cfg='CfgGen', MaxItems=1, ChunkMax=1, MaxIdle=5, Dts={1},
                                   Reacts={"none", "close"}, ReactAt={"poll", "text"}, MaxReacts=4)})
    return out


def variants(sc, b):
    """base + the same arrivals trickling in one byte per tick (reads that complete no message)"""
    out = [('base', sc)]
    ck = sc.get('connect_kwargs') or {}
    if ck.get('ping_timeout') is None or ck.get('close_timeout') is None:
        # "disabled" spelled 0 instead of None (the statement names both)
        sc0 = copy.deepcopy(sc)
        for k in ('ping_timeout', 'close_timeout'):
            if sc0['connect_kwargs'].get(k) is None:
                sc0['connect_kwargs'][k] = 0
        if sessprop.sampled(sc, b, 3):
            out.append(('=zero-instead-of-none', sc0))
    if sessprop.sampled(sc, b, 4):
        scq = copy.deepcopy(sc)
        scq['tick'] = 0.25           # one tick = 0.25 s: poll 0.5 / 0.75 s, ping_rate 1.25 s ... (dyadic, so float arithmetic stays exact)
        for k in ('poll', 'ping_rate', 'ping_timeout', 'close_timeout'):
            if scq['connect_kwargs'].get(k):
                scq['connect_kwargs'][k] = scq['connect_kwargs'][k] * 0.25
        out.append(('=quarter-second-ticks', scq))
    steps = sc['conns'][0]['steps']
    if any(s['kind'] == 'data' and s.get('items') for s in steps[1:]):
        sc2 = copy.deepcopy(sc)
        new = []
        first = True
        for s in sc2['conns'][0]['steps']:
            if s['kind'] == 'data' and not first:
                new.append({"kind": "drain_item", "dt": 1, "first_dt": s.get('dt', 0)})
            else:
                new.append(s)
            if s['kind'] == 'data':
                first = False
        sc2['conns'][0]['steps'] = new
        out.append(('trickle', sc2))
    if ck.get('ping_rate') and not ck.get('ping_timeout') and not sc.get('react') and sessprop.sampled(sc, b, 3):
        # a long quiet stretch: the idle waits of the behaviour repeated for 12 more ping periods (lateness of the automatic
        # pings must not accumulate: each one within `poll` of its multiple of ping_rate)
        sc3 = copy.deepcopy(sc)
        st = sc3['conns'][0]['steps']
        tail = st[-1:] if st and st[-1]['kind'] in ('eof', 'error', 'boom') else []
        body = st[:len(st) - len(tail)]
        n_more = int(12 * ck['ping_rate'] / max(1, ck.get('poll') or 1)) + 2
        sc3['conns'][0]['steps'] = body + [{"kind": "timeout"} for _ in range(n_more)] + tail
        sc3['max_waits'] = 400
        out.append(('long-quiet', sc3))
    return out


def nontrivial(log, sc):
    names = tuple((x['name'], x['t']) for x in log if x['k'] == 'ev')
    pings = tuple(x['t'] for x in log if x['k'] == 'wr' and x.get('op') == 9)
    if pings or any(n[0] == 'unresponsive' for n in names) or len([n for n in names if n[0] == 'poll']) > 2:
        return (names, pings)
    return None


def anchors(log, sc):
    out = set()
    evs = [x for x in log if x['k'] == 'ev']
    if any(x['name'] == 'unresponsive' for x in evs):
        out.add('unresponsive')
    if any(x['k'] == 'wr' and x.get('op') == 9 for x in log):
        out.add('auto_ping')
    if len([x for x in evs if x['name'] == 'poll']) >= 3:
        out.add('three_polls')
    if any(x['name'] == 'pong' for x in evs):
        out.add('pong')
    closed = any(x['k'] == 'wr' and x.get('op') == 8 for x in log)
    other = any((x['k'] == 'rd' and x['what'] != 'data') for x in log) or any(x['name'] in ('unresponsive', 'closed') for x in evs)
    if closed and evs and evs[-1]['name'] == 'disconnected' and not evs[-1]['graceful'] and not other:
        out.add('forced_disconnect')
    if closed and any(x['name'] == 'closed' for x in evs):
        out.add('close_completed')
    return out


def run(tier, seed):
    r, results, seen = sessprop.standard_run(
        'C15', tier, seed, None, 'Mon_C15', instances(tier), KINDS,
        rule='parameter grid (poll, ping_rate, ping_timeout, close_timeout incl. 0) x every history of {time-out, pong / text / close '
             'reply arriving after 0..poll ticks, EOF, permanent silence} on the virtual tick grid x application close at Ready or at '
             'any Poll; non-trivial = distinct timed event sequences with an automatic ping, Unresponsive or >= 3 polls',
        nontrivial=nontrivial, need_actions=('RegPoll', 'RegPing', 'RegPingTimeout', 'RegCloseTimeout', 'CloseFin'), anchors=anchors, variants=variants, sample_keys=('ev', 'wr'), max_exec=None if tier == 'quick' else 2500)
    need = {'unresponsive', 'auto_ping', 'three_polls', 'pong', 'forced_disconnect', 'close_completed'}
    missing = sorted(need - seen)
    return r.finish(vacuous=('never exercised: %s' % missing) if missing else None)


def replay(path, seed):
    return sessprop.standard_replay('C15', 'Mon_C15', KINDS, path)
