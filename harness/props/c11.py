"""C11 - concurrent senders never corrupt the wire."""
from .. import threadprop

import hashlib

T = "hello hello hello "
R = list(hashlib.sha512(b'C11 incompressible block').digest())      # 64 bytes that deflate cannot shrink
PROGRAMS = [
    ("two-senders", {"compress": False, "threads": {"A": [["send_text", T + "A1"], ["send_text", T + "A2"]], "B": [["send_binary", list((T + "B1").encode())]]}}),
    ("two-compressed-senders", {"compress": True, "threads": {"A": [["send_text", T + "A1"], ["send_text", T + "A2"]], "B": [["send_binary", list((T + "B1").encode())]]}}),
    ("binary-vs-text-compressed", {"compress": True, "threads": {"A": [["send_binary", list((T + "A1").encode())]], "B": [["send_text", T + "B1"], ["send_binary", list((T + "B2").encode())]]}}),
    ("sender-vs-loop", {"compress": True, "threads": {"A": [["send_text", T + "A1"], ["send_text", T + "A2"]], "L": [["loop_pong", [1, 2, 3]], ["loop_autoping"]]}}),
    ("large-frame-vs-small", {"compress": False, "threads": {"A": [["send_binary", [(i * 7) % 251 for i in range(40000)]]], "B": [["send_ping", [1]], ["send_text", "B2"]]}}),
    # an incompressible message followed by the same bytes again: whatever the compressor has seen, the peer must have seen too
    ("incompressible-then-repeated", {"compress": True, "threads": {"A": [["send_binary", R], ["send_binary", R + R]], "B": [["send_text", T + "B1"]]}}),
    # the loop thread inflates server messages (server_no_context_takeover: its context is reset after each) while another thread compresses
    ("sender-vs-inflating-loop", {"compress": True, "ext_options": {"server_no_context_takeover": ""},
                                  "threads": {"A": [["send_text", T + "A1"], ["send_text", T + "A2"]], "L": [["loop_inflate", list((T + "S1").encode())], ["loop_inflate", list((T + "S2").encode())]]}}),
    # client_no_context_takeover negotiated: the compressor is reset after every message, it is shared all the same
    ("two-compressed-senders-no-takeover", {"compress": True, "ext_options": {"client_no_context_takeover": ""},
                                            "threads": {"A": [["send_text", T + "A1"], ["send_text", T + "A2"]], "B": [["send_binary", list((T + "B1").encode())]]}}),
    ("three-senders", {"compress": True, "threads": {"A": [["send_text", T + "A1"]], "B": [["send_binary", list((T + "B1").encode())]], "C": [["send_ping", [9]], ["send_text", T + "C2"]]}}),
]
BQ = {name: 1 for name, _ in PROGRAMS}
BT = {"two-compressed-senders-no-takeover": 1, "sender-vs-inflating-loop": 1, "incompressible-then-repeated": 1, "large-frame-vs-small": 1, "two-senders": 2, "two-compressed-senders": 2, "binary-vs-text-compressed": 2, "sender-vs-loop": 2, "three-senders": 1}
RULE = ('every schedule with at most 1-2 pre-emptions (line granularity, stateless exhaustive search) of 9 thread programs (2-3 threads x 1-2 sends each: '
        'send_text / send_binary / send_ping / the loop\'s pong and auto-ping; with and without negotiated compression, context takeover), every sendall split '
        'in two steps; every schedule with one pre-emption at OPCODE granularity for the two-thread programs; thorough adds 3000 random opcode-granular schedules; non-trivial = distinct (program, wire order, call results)')


def run(tier, seed):
    return threadprop.run_property('C11', 'Mon_C11', tier, seed, PROGRAMS, BQ, BT, RULE, {'interleaved_threads', 'compressed'})


def replay(path, seed):
    return threadprop.replay('C11', 'Mon_C11', path)
