"""C16 - persist() reconnects for ever with bounded, growing, resettable back-off."""
import json

from .. import sessprop, pipeline

KINDS = {'ev', 'bwait', 'connectcall', 'stop', 'escape', 'hang'}
KW = {"poll": 3, "ping_rate": 7, "ping_timeout": 11}
CONN = {
    "connect_fail": {"net": ["refused"]},
    "rejected": {"stream": [{"t": "http", "v": "rej", "status": 403}]},
    "drop_before_ready": {"steps": [{"kind": "eof"}]},
    "drop_after_ready": {"stream": [{"t": "http", "v": "ok"}, {"t": "f", "op": 1, "fin": 1, "pl": [97]}]},
    "graceful_close": {"stream": [{"t": "http", "v": "ok"}, {"t": "f", "op": 8, "fin": 1, "pl": [3, 232]}]},
    "protocol_error": {"stream": [{"t": "http", "v": "ok"}, {"t": "f", "op": 3, "fin": 1, "pl": []}]},
}


def scenario(b):
    hist = b['hist']
    return {"mode": "persist", "conns": [dict(CONN[h['outcome']]) for h in hist],
            "draws": [list(h['draw']) for h in hist], "exit_at": len(hist) - 1,
            "persist_kwargs": dict(KW, min_wait=b['w']['min'], max_wait=b['w']['max'])}


def run(tier, seed):
    q = tier == 'quick'
    r = pipeline.Run('C16', tier, seed)
    r.rule = ('every behaviour of spec/Persist.tla: all sequences of up to %d attempt outcomes (connect failure, rejection, drop before / after '
              'Ready, graceful close, protocol error) x (min_wait, max_wait) settings x random draws per back-off, exit event set after the last '
              'attempt; each replayed through the real persist() over the real connect() in the simulated world with scripted random() and exit '
              'event; non-trivial = distinct behaviours with >= 2 attempts' % (3 if q else 4))
    r.assumptions = ['random.random and the exit event are scripted (lomond.persist.random, exit_event argument); delays are compared as exact rationals (dyadic draws)']
    cfg = ("SPECIFICATION Spec\nCONSTANTS Outcomes = {\"connect_fail\", \"rejected\", \"drop_before_ready\", \"drop_after_ready\", \"graceful_close\", \"protocol_error\"}\n"
           " Draws <- %s\n Waits <- %s\n MaxAttempts = %d\nINVARIANT DelayInBounds\nINVARIANT UpperLimitDoubles\nINVARIANT OnlyExitEndsIt\nINVARIANT Emit\nCHECK_DEADLOCK FALSE\n"
           % (('MCDrawsQ', 'MCWaitsQ', 3) if q else ('MCDraws', 'MCWaits', 4)))
    res, beh = pipeline.generate('MC_Persist', cfg, timeout=1500)
    r.add_tlc('Persist.tla (DelayInBounds, UpperLimitDoubles, OnlyExitEndsIt)', res)
    if res.violated:
        raise pipeline.MachineryFailure('Persist.tla violates %s' % res.violated)
    from .. import apalache
    ind = apalache.inductive('PersistInd', broken={
        'no_saturation': ("cap' = Min(MaxW - MinW, pow')", "cap' = pow'"),                 # delay may exceed max_wait
        'no_reset': ("pow' = IF ready THEN 1 ELSE 2 * pow", "pow' = 2 * pow"),              # Ready does not reset the limit
        'no_growth': ("pow' = IF ready THEN 1 ELSE 2 * pow", "pow' = IF ready THEN 1 ELSE pow")})
    r.cov['apalache_inductive_invariant'] = ind
    if ind == {'base': 'OK', 'step': 'OK', 'no_saturation': 'VIOLATED', 'no_reset': 'VIOLATED', 'no_growth': 'VIOLATED'}:
        r.tlc_runs.append({"run": "apalache-mc PersistInd.tla: delay bounds / doubling / reset inductive for every min_wait <= max_wait, every draw and "
                                  "any number of consecutive failures; three broken variants are not inductive", "result": ind})
    else:
        r.note('Apalache inductive-invariant run did not give the expected results: %s' % ind)
    if not q and len(beh) > 60000:
        import random
        beh = random.Random(seed).sample(beh, 60000)
    jobs = [(b, scenario(b)) for b in beh]
    # the same histories with the exit event left to persist() itself (exit_event=None): every 5th behaviour
    jobs += [(b, dict(scenario(b), exit_event='default')) for i, b in enumerate(beh) if i % 5 == 0]
    # one long chain: far more consecutive failures than any double-precision exponent can take
    n_long = 1100
    long_b = {"w": {"min": 1, "max": 60}, "names": [["connecting", "connect_fail"]] * n_long,
              "hist": [{"outcome": "connect_fail", "draw": [1, 2], "k": i + 1, "delay": [0, 1], "stop": i == n_long - 1} for i in range(n_long)]}
    jobs.append((long_b, scenario(long_b)))
    # an attempt that fails because the application called close() at its Connecting event (the upgrade request is refused with
    # WebSocketClosing): one more ConnectFail as far as persist() is concerned - back-off and the next attempt follow
    for at in (0, 1, 2):
        hist = [{"outcome": "connect_fail", "draw": [1, 2], "k": i + 1, "delay": [0, 1], "stop": i == 3} for i in range(4)]
        b = {"w": {"min": 1, "max": 60}, "names": [["connecting", "connect_fail"]] * 4, "hist": hist}
        sc = scenario(b)
        sc['conns'][at] = {"net": ["ok"], "stream": [{"t": "http", "v": "ok"}]}
        sc['react'] = {"connecting#%d" % at: [["close"]]}
        jobs.append((b, sc))
    logs = pipeline.execute([j[1] for j in jobs])
    r.evaluations = len(jobs)
    r.traces = len(jobs)
    traces, nt, seen = [], set(), set()
    for i, ((b, sc), log) in enumerate(zip(jobs, logs)):
        traces.append({"id": i, "w": b['w'], "hist": b['hist'], "names": b['names'], "kw": KW, "tr": sessprop.slim(log, KINDS, drop=('msg', 'url', 'other'))})
        if len(b['hist']) >= 2:
            nt.add(i)
        for h in b['hist']:
            seen.add(h['outcome'])
    rej, states, wall = pipeline.judge('Mon_C16', traces, field='')
    r.states += states
    r.transitions += states
    r.tlc_runs.append({"run": "judge Mon_C16", "objects": len(traces), "wall_s": round(wall, 1)})
    r.nontrivial = len(nt)
    r.exhaustive = q
    r.cov['behaviours'] = len(beh)
    for i in (0, len(jobs) // 2, len(jobs) - 1):
        r.samples.append({"w": jobs[i][0]['w'], "attempts": [(h['outcome'], h['draw'], h['delay']) for h in jobs[i][0]['hist']],
                          "backoff_delays_observed": [x['delay'] for x in logs[i] if x['k'] == 'ev' and x['name'] == 'back_off']})
    for tid, clause in rej:
        b, sc = jobs[tid]
        r.violation(clause, {"scenario": sc, "model": b, "trace": traces[tid]['tr']})
    missing = sorted(set(CONN) - seen)
    return r.finish(vacuous=('outcomes never exercised: %s' % missing) if missing else None)


def replay(path, seed):
    from .. import world
    case = json.load(open(path))['case']
    log, _ = world.run_scenario(case['scenario'])
    b = case['model']
    tr = sessprop.slim(log, KINDS, drop=('msg', 'url', 'other'))
    for x in tr:
        print(json.dumps(x)[:200])
    rej, _, _ = pipeline.judge('Mon_C16', [{"id": 0, "w": b['w'], "hist": b['hist'], "names": b['names'], "kw": KW, "tr": tr}], field='')
    if rej:
        print('VIOLATION property=C16 replay=%s clause=%s' % (path, rej[0][1]))
        return 1
    print('C16 replay: ok')
    return 0
