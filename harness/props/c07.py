"""C07 - every connection attempt yields a well-formed, finite event sequence."""
import json

from .. import pipeline, sessprop, tlc

ALL_FAULTS = {"dns", "refused", "reqwrite", "recv_error", "recv_boom", "wait_raise", "write_error"}
REACT_AT = {"connecting", "connected", "ready", "poll", "text", "ping", "closing", "protocol_error"}
IDLE = {"poll": 5, "ping_rate": 0, "ping_timeout": 0, "close_timeout": 0, "auto_pong": True}
TIMERS = {"poll": 5, "ping_rate": 5, "ping_timeout": 5, "close_timeout": 5, "auto_pong": True}
PINGTO = {"poll": 5, "ping_rate": 5, "ping_timeout": 5, "close_timeout": 0, "auto_pong": True}
CLOSEONLY = {"poll": 5, "ping_rate": 0, "ping_timeout": 0, "close_timeout": 5, "auto_pong": True}
ANCHORS = ['connect_fail', 'connected', 'ready', 'rejected', 'poll', 'text', 'binary', 'ping', 'closing', 'closed',
           'protocol_error', 'unresponsive', 'disconnected']


def instances(tier):
    q = tier == 'quick'
    return [
        {"label": "faults+reactions", "cfg": IDLE,
         "consts": dict(HttpItems='HttpAll', Items='ItemsQ' if q else 'ItemsT', Cfg='CfgIdle', MaxItems=2,
                        ChunkMax=2, Faults=ALL_FAULTS, NAddr=2, Reacts={"none", "send", "close"}, ReactAt=REACT_AT, AfterClose=True,
                        MaxReacts=1)},
        {"label": "timers", "cfg": TIMERS,
         "consts": dict(HttpItems='HttpOk', Items='ItemsQ', Cfg='CfgTimers', MaxItems=1 if q else 2, ChunkMax=1,
                        MaxIdle=3 if q else 4, Dts={0, 5}, Faults={"recv_error"}, Reacts={"none", "close"},
                        ReactAt={"ready", "poll", "text"}, MaxReacts=1)},
        # no close time-out: after close() only the ping time-out can end a connection to a silent server
        {"label": "ping-timeout-without-close-timeout", "cfg": PINGTO,
         "consts": dict(HttpItems='HttpOk', Items='ItemsQ', Cfg='CfgPingTimeoutOnly', MaxItems=1, ChunkMax=1,
                        MaxIdle=3 if q else 4, Dts={0, 5}, Faults=set(), Reacts={"none", "close", "send"},
                        ReactAt={"ready", "poll", "text"}, MaxReacts=1)},
        {"label": "close-timeout-only", "cfg": CLOSEONLY,
         "consts": dict(HttpItems='HttpOk', Items='ItemsQ', Cfg='CfgCloseOnly', MaxItems=1 if q else 2, ChunkMax=1,
                        MaxIdle=2, Dts={0, 5}, Faults=set(), Reacts={"none", "close", "send"},
                        ReactAt={"connected", "ready", "poll", "text", "closing"}, MaxReacts=1 if q else 2)},
    ]


def flood_scenarios():
    """Hand-written: a server that keeps sending data that completes no message (non-final fragments, every 1-4 ticks, for far longer
    than any configured time-out) while a ping or close time-out is armed.  The time-out must still end the connection: a client that
    reads the whole flood reaches the `outlived` step and is recorded as hanging."""
    out = []
    for cfg, closing in ((TIMERS, False), (TIMERS, True), (PINGTO, False), (PINGTO, True), (CLOSEONLY, True),
                         ({"poll": 5, "ping_rate": 0, "ping_timeout": 7, "close_timeout": 0, "auto_pong": True}, False)):
        for first in ({"t": "f", "op": 2, "fin": 0, "pl": [1]}, {"t": "f", "op": 1, "fin": 0, "pl": [97]}):
            for dt in (1, 2, 4):
                frames = [dict(first)] + [{"t": "f", "op": 0, "fin": 0, "pl": [] if i % 2 else [98]} for i in range(59)]
                sc = {"conns": [{"stream": [{"t": "http", "v": "ok"}] + frames,
                                 "steps": [{"kind": "data", "items": 1, "dt": 0}] + [{"kind": "data", "items": 1, "dt": dt} for _ in frames] + [{"kind": "outlived"}]}],
                      "connect_kwargs": dict(cfg), "react": {"ready#0": [["close"]]} if closing else {}}
                out.append(sc)
    # the application calls close() again at every Poll while the server stays silent: the close time-out runs from the first call
    for poll, ct in ((2, 5), (5, 7), (1, 3)):
        out.append({"conns": [{"stream": [{"t": "http", "v": "ok"}], "steps": [{"kind": "data", "items": 1, "dt": 0}, {"kind": "silence"}]}],
                    "connect_kwargs": {"poll": poll, "ping_rate": 0, "ping_timeout": None, "close_timeout": ct, "auto_pong": True},
                    "react": {"poll#%d" % k: [["close"]] for k in range(60)}, "max_waits": 60})
    # the server answers one or two pings (or sends unsolicited Pongs) and then goes silent: the ping time-out still ends the connection
    for cfg in (TIMERS, PINGTO, {"poll": 2, "ping_rate": 3, "ping_timeout": 7, "close_timeout": 0, "auto_pong": True}):
        for npong in (1, 2):
            pongs = [{"t": "f", "op": 10, "fin": 1, "pl": [k]} for k in range(npong)]
            out.append({"conns": [{"stream": [{"t": "http", "v": "ok"}] + pongs,
                                   "steps": [{"kind": "data", "items": 1, "dt": 0}] + [{"kind": "data", "items": 1, "dt": 2} for _ in pongs] + [{"kind": "silence"}]}],
                        "connect_kwargs": dict(cfg), "react": {}, "max_waits": 60})
    return out


LIVENESS_CFG = dict(HttpItems='HttpAll', Items='ItemsQ', Cfg='CfgTimers', MaxItems=1, ChunkMax=1, MaxIdle=3, Dts={0, 5},
                    Faults={"recv_error", "wait_raise"}, Reacts={"none", "close"}, ReactAt={"ready", "poll"}, MaxReacts=1)


def run(tier, seed):
    r = pipeline.Run('C07', tier, seed)
    r.rule = ('every behaviour of the session model (server steps x faults x application reactions, bounded) is replayed '
              'into the real code; non-trivial = distinct event-name sequences that got past Connecting/ConnectFail')
    r.assumptions = ['simulated socket/selector/clock faithfully stand in for the OS (harness/world.py)',
                     'TLC evaluates Mon_C07 correctly; the model bounds are listed under detail.instances']
    insts = instances(tier)
    if tier == 'thorough':
        insts.append({"label": "simulate-deep", "cfg": TIMERS, "simulate": "num=4000", "depth": 120,
                      "consts": dict(HttpItems='HttpAll', Items='ItemsT', Cfg='CfgTimers', MaxItems=8, ChunkMax=3, MaxIdle=6,
                                     Dts={0, 2, 5}, Faults=ALL_FAULTS, NAddr=2, AfterClose=True, Reacts={"none", "send", "ping", "close"},
                                     ReactAt=REACT_AT, MaxReacts=4)})
    # liveness on the model: every behaviour terminates (fair scheduling of the library, finite environment)
    consts = dict(sessprop.DEFAULTS)
    consts.update(LIVENESS_CFG)
    res = tlc.run('MC_C07', sessprop.cfg_text(consts, invariants=('MonPrefix',), spec='FairSpec', properties=('Terminates',)))
    r.add_tlc('liveness Terminates', res)
    if res.violated:
        raise pipeline.MachineryFailure('model does not terminate: %s' % res.error)
    # code -> spec: random long scenarios, each recorded execution validated by TLC as a behaviour of Lomond.tla, and judged
    from .. import tracevalid
    extra_traces = []
    for cfgname, cfg in (('CfgIdle', IDLE), ('CfgTimers', TIMERS)):
        scs, logs, acc = tracevalid.validate(r, tier, cfgname, cfg, 300 if tier == 'quick' else 3000)
        extra_traces.extend(zip(scs, logs))
    floods = flood_scenarios()
    extra_traces.extend(zip(floods, pipeline.execute(floods)))
    r.cov['flood_scenarios'] = len(floods)

    def variants(sc, b):
        out = [('base', sc)]
        if sessprop.sampled(sc, b, 9):
            out += [('wss', sessprop.via_tls(sc)), ('proxy', sessprop.via_proxy(sc)), ('wss-proxy', sessprop.via_proxy(sessprop.via_tls(sc)))]
        return out
    results, rej = sessprop.run_model_instances(r, 'MC_C07', 'Mon_C07', insts, kinds={'ev', 'stop', 'escape', 'hang'}, variants=variants,
                                                max_exec=None if tier == 'quick' else 40000)
    seqs = set()
    seen = set()
    for label, b, sc, log in results:
        names = tuple(x['name'] for x in log if x['k'] == 'ev')
        seen.update(names)
        if len(names) > 2:
            seqs.add(names)
    r.nontrivial = len(seqs)
    r.cov['event_kinds_seen'] = sorted(seen)
    r.exhaustive = tier == 'quick'
    for label, b, sc, log in results[:3]:
        r.samples.append({"instance": label, "scenario": sc, "events": [x['name'] for x in log if x['k'] == 'ev']})
    rej2, st2, _ = pipeline.judge('Mon_C07', [{"id": i, "tr": sessprop.slim(l, {'ev', 'stop', 'escape', 'hang'})} for i, (s_, l) in enumerate(extra_traces)])
    r.states += st2
    r.evaluations += len(extra_traces)
    r.traces += len(extra_traces)
    for tid, clause in rej2:
        r.violation(clause, {"instance": "random-script", "scenario": extra_traces[tid][0],
                             "trace": sessprop.slim(extra_traces[tid][1], {'ev', 'stop', 'escape', 'hang', 'call', 'wr'})})
    for tid, clause in rej:
        label, b, sc, log = results[tid]
        r.violation(clause, {"instance": label, "scenario": sc, "trace": sessprop.slim(log, {'ev', 'stop', 'escape', 'hang', 'call', 'wr'})})
    missing = [a for a in ANCHORS if a not in seen]
    return r.finish(vacuous=('event kinds never produced by the code: %s' % missing) if missing else None)


def replay(path, seed):
    from .. import world
    case = json.load(open(path))['case']
    log, ws = world.run_scenario(case['scenario'])
    rej, _, _ = pipeline.judge('Mon_C07', [{"id": 0, "tr": sessprop.slim(log, {'ev', 'stop', 'escape', 'hang'})}])
    for x in log:
        if x['k'] in ('ev', 'stop', 'escape', 'hang'):
            print(json.dumps(x))
    if rej:
        print('VIOLATION property=C07 replay=%s clause=%s' % (path, rej[0][1]))
        return 1
    print('C07 replay: ok')
    return 0
