"""C14 - every Ping is answered by exactly one matching Pong, in order."""
import copy

from .. import sessprop, pipeline

KINDS = {'cfg', 'srv', 'rd', 'ev', 'wr', 'wrf', 'call'}
PLAIN = {"poll": 5, "ping_rate": 0, "ping_timeout": 0, "close_timeout": 0, "auto_pong": True}
NOPONG = dict(PLAIN, auto_pong=False)
AT = {"ping", "text", "closing"}


def instances(tier):
    q = tier == 'quick'
    return [
        {"label": "auto-pong", "cfg": PLAIN,
         "consts": dict(HttpItems='HttpOk', Items='C14Items', Cfg='CfgPlain', MaxItems=3, ChunkMax=2,
                        Faults={"write_error"}, Reacts={"none", "send", "close", "badclose"}, ReactAt=AT, MaxReacts=1)},
        {"label": "auto-pong-off", "cfg": NOPONG,
         "consts": dict(HttpItems='HttpOk', Items='C14Items', Cfg='CfgNoPong', MaxItems=2 if q else 3, ChunkMax=2,
                        Reacts={"none", "send"}, ReactAt=AT, MaxReacts=1)},
    ] + ([] if q else [
        {"label": "auto-pong-deep-simulation", "cfg": PLAIN, "simulate": "num=30000", "depth": 300,
         "consts": dict(HttpItems='HttpOk', Items='C14Items', Cfg='CfgPlain', MaxItems=7, ChunkMax=4, Faults={"write_error"},
                        Reacts={"none", "send", "close", "badclose"}, ReactAt=AT | {"ready", "binary"}, MaxReacts=3)}])


def variants(sc, b):
    out = [('base', sc)]
    if sessprop.sampled(sc, b, 5) and not any(w != 'ok' for w in sc['conns'][0].get('writes', [])):
        # the same stream from an RFC 7692 peer (compressed data messages, Pings between their fragments)
        out.append(('deflate', sessprop.via_deflate(sc, 'rand')))
    if sessprop.sampled(sc, b, 3) and not sc.get('react'):
        out.append(('second-connection', sessprop.with_second_connection(sc)))
    return out


def post(t, result):
    """For scenarios in which a write failed: add the twin trace of the same scenario with every write succeeding."""
    label, b, sc, log = result
    if any(x['k'] == 'wrf' and x.get('op') == 10 for x in log) and not any(x['k'] == 'wrf' and x.get('op') != 10 for x in log):
        from .. import world
        sc2 = copy.deepcopy(sc)
        sc2['conns'][0]['writes'] = []
        log2, _ = world.run_scenario(sc2)
        t = dict(t)
        t['tw'] = sessprop.slim(log2, {'ev'})
    return t


def nontrivial(log, sc):
    if not any(x['k'] == 'ev' and x['name'] == 'ping' for x in log):
        return None
    return tuple((x['k'], x.get('name'), x.get('op'), x.get('m')) for x in log if x['k'] in ('ev', 'wr', 'wrf', 'call'))


def anchors(log, sc):
    out = set()
    pings = [i for i, x in enumerate(log) if x['k'] == 'ev' and x['name'] == 'ping']
    if any(x['k'] == 'wr' and x.get('op') == 10 for x in log):
        out.add('pong_written')
    if len(pings) >= 2:
        out.add('several_pings')
    if any(x['k'] == 'wrf' and x.get('op') == 10 for x in log):
        out.add('pong_write_failed')
    fr = [x for x in log if x['k'] == 'srv' and x.get('it') == 'f']
    for a, b2 in zip(fr, fr[1:]):
        if a['fin'] == 0 and b2['op'] == 9:
            out.add('ping_between_fragments')
    closes = [i for i, x in enumerate(log) if (x['k'] == 'wr' and x.get('op') == 8) or (x['k'] == 'call' and x['m'] == 'close')]
    if pings and closes and min(closes) < max(pings):
        out.add('ping_while_closing')
    if any(x['k'] == 'call' and x['m'] == 'send_text' and x['res'] == 'ok' for x in log) and pings:
        out.add('app_send_with_ping')
    return out


def run(tier, seed):
    r, results, seen = sessprop.standard_run(
        'C14', tier, seed, sessprop.wrapper('Mon_C14', 'Verdict([tr |-> obs])'), 'Mon_C14', instances(tier), KINDS,
        rule='all streams over {Ping(empty / 1 byte / 125-byte blob), text fragments, binary, Close} up to the bound x several items per '
             'read x auto_pong on/off x application send/close at events x failing pong writes; non-trivial = distinct histories '
             'containing a Ping event',
        nontrivial=nontrivial, need_actions=('FeedNext', 'AppReact', 'CloseEcho'), anchors=anchors, variants=variants, post=post, judge_field='', sample_keys=('ev', 'wr', 'wrf', 'call'),
        random_scripts=[{'cfgname': 'CfgPlain', 'cfg': PLAIN, 'n': (300, 4000), 'items': 'C14Items', 'faults': {'all'}}])
    need = {'pong_written', 'several_pings', 'pong_write_failed', 'ping_between_fragments', 'ping_while_closing', 'app_send_with_ping'}
    missing = sorted(need - seen)
    return r.finish(vacuous=('never exercised: %s' % missing) if missing else None)


def replay(path, seed):
    return sessprop.standard_replay('C14', 'Mon_C14', KINDS, path, post=post, judge_field='')
