"""C05 - text is delivered if and only if it is strictly valid UTF-8."""
import itertools
import json

from .. import sessprop, pipeline, tlc, replay as rp

KINDS = {'cfg', 'srv', 'rd', 'ev'}
PLAIN = {"poll": 5, "ping_rate": 0, "ping_timeout": 0, "close_timeout": 0, "auto_pong": True}
BOUNDARY = [0, 127, 128, 143, 144, 159, 160, 191, 192, 193, 194, 223, 224, 225, 236, 237, 238, 239, 240, 241, 243, 244, 245, 255]


def utf8_cfg(maxlen):
    return ("SPECIFICATION Spec\nCONSTANTS MaxLen = %d\n ExtLen = 3\nINVARIANT AcceptIffWellFormed\nINVARIANT DeadIffNoContinuation\n"
            "INVARIANT DeadIsPermanent\nINVARIANT FirstDeadConsistent\nINVARIANT DecodeInvertsEncode\nINVARIANT EmitTable\n"
            "CHECK_DEADLOCK FALSE\n" % maxlen)


def bind_table(run, table, tier):
    """Every row of the TLC-printed transition table becomes calls of the real validator: for each automaton state
    (reached by its access sequence), each of the 256 next bytes and each distinguishing suffix, the verdict of the real
    Utf8Validator - fed in one piece and split at every position - must equal the table-driven run."""
    from .. import world
    V = world.lomond_modules()['utf8validator'].Utf8Validator
    rows = list(table.values()) if isinstance(table, dict) else list(table)
    by_access = {tuple(r['access']): r for r in rows}

    def table_run(access, data):
        cur = by_access[tuple(access)]
        for b in data:
            nxt = cur['next'][b]
            cur = by_access[tuple(nxt['access'])]
        return cur['name']

    def impl(chunks):
        v = V()
        ok, ends = True, True
        for c in chunks:
            ok, ends, _, _ = v.validate(bytes(c))
            if not ok:
                return 'dead'
        return 'accept' if ends else 'mid'
    small = [0x00, 0x7F, 0x80, 0x8F, 0x90, 0x9F, 0xA0, 0xBF]
    alpha = small if tier == 'quick' else BOUNDARY
    suffixes = [()] + [(a,) for a in alpha] + list(itertools.product(alpha, repeat=2))
    n = 0
    bad = []
    for r in rows:
        acc = list(r['access'])
        for b in range(256):
            for w in suffixes:
                data = acc + [b] + list(w)
                want = table_run((), data)
                got1 = impl([data])
                got2 = impl([[x] for x in data])                       # one byte at a time
                got3 = impl([acc + [b], list(w)]) if w else got1       # split after the transition under test
                n += 3
                if not (want == got1 == got2 == got3):
                    bad.append({"bytes": data, "spec": want, "whole": got1, "bytewise": got2, "split": got3})
    # reset() must bring the validator back to the start state
    v = V()
    v.validate(b'\xe2\x82')
    v.reset()
    ok, ends, _, _ = v.validate(b'a')
    if not (ok and ends):
        bad.append({"bytes": "reset", "spec": "accept", "whole": "dead"})
    run.cov['utf8_table'] = {"rows": len(rows) * 256, "suffixes_per_row": len(suffixes), "validator_runs": n, "mismatches": len(bad)}
    run.evaluations += n
    for m in bad[:5]:
        run.violation('validator_differs_from_spec_automaton', {"kind": "utf8_table", "row": m})
    if len(bad) > 5:
        run.violations.extend([('validator_differs_from_spec_automaton', run.violations[-1][1])] * (len(bad) - 5))
    return n


def nontrivial(log, sc):
    fr = tuple((x['op'], x['fin'], tuple(x['pl']['s'])) for x in log if x['k'] == 'srv' and x.get('it') == 'f')
    if any(f[0] in (0, 1) and any(b >= 128 for b in f[2]) for f in fr):
        return fr + (len([1 for x in log if x['k'] == 'rd']),)
    return None


def anchors(log, sc):
    out = set()
    evs = [x['name'] for x in log if x['k'] == 'ev']
    fr = [x for x in log if x['k'] == 'srv' and x.get('it') == 'f']
    if 'protocol_error' in evs:
        out.add('rejected_text')
    if any(x['k'] == 'ev' and x['name'] == 'text' and any(c > 127 for c in x.get('cps', [])) for x in log):
        out.add('non_ascii_text_delivered')
    if any(a['fin'] == 0 and b['op'] == 9 for a, b in zip(fr, fr[1:])):
        out.add('ping_between_fragments')
    if any(f['op'] == 1 and f['fin'] == 0 and not f['pl']['s'] for f in fr):
        out.add('empty_first_fragment')
    if any(f['op'] == 8 and len(f['pl']['s']) > 2 for f in fr):
        out.add('close_reason')
    if any(f.get('zorig') and f['fin'] == 0 for f in fr):
        out.add('compressed_fragmented_text')
    if any(f.get('zorig') for f in fr) and 'protocol_error' in evs:
        out.add('compressed_text_rejected')
    return out


def after_dirty_connection(sc):
    """The same scenario as the second connection of an object whose first connection ended inside a code point
    (in a text fragment and in a close reason): the verdict must not depend on what an earlier connection left behind."""
    import copy
    sc2 = copy.deepcopy(sc)
    dirty = {"stream": [{"t": "http", "v": "ok"}, {"t": "f", "op": 1, "fin": 0, "pl": [226, 130]}, {"t": "f", "op": 8, "fin": 1, "pl": [3, 232, 240, 159]}]}
    sc2['conns'] = [dirty] + sc2['conns']
    sc2['nconnect'] = 2
    sc2['judge_last_connection'] = True
    return sc2


def variants(sc, b):
    out = [('base', sc), ('bytewise', sessprop.reseg(sc, 1)), ('randcuts', sessprop.reseg(sc, 'rand'))]
    if len(sc['conns'][0].get('stream', [])) <= 3:
        out.append(('after-dirty-connection', after_dirty_connection(sc)))
    if sessprop.sampled(sc, b, 3):
        # the same messages compressed by an RFC 7692 peer (same fragmentation): delivered iff the inflated payload is well-formed
        out.append(('deflate', sessprop.via_deflate(sc, 'rand')))
    return out


def run(tier, seed):
    q = tier == 'quick'

    def extra(r):
        res = tlc.run('MC_Utf8', utf8_cfg(3 if q else 4), timeout=1500)
        r.add_tlc('Utf8.tla automaton vs Table 3-7 (all sequences over 24 boundary bytes up to length %d)' % (3 if q else 4), res)
        if res.violated:
            raise pipeline.MachineryFailure('Utf8.tla is inconsistent: %s' % res.error)
        tables = [l for l in res.lines if isinstance(l, dict) and 'table' in l]
        if not tables:
            raise pipeline.MachineryFailure('TLC did not print the UTF-8 transition table')
        bind_table(r, tables[0]['table'], tier)
    insts = [
        {"label": "utf8-message-scenarios", "cfg": PLAIN, "module": 'GenC05', "invariants": ('Emit',), "raw_cfg":
            "SPECIFICATION Spec\nCONSTANTS MaxPayload = %d\nINVARIANT Emit\nCHECK_DEADLOCK FALSE\n" % (4 if q else 6), "consts": {}},
        {"label": "session-model", "cfg": PLAIN,
         "consts": dict(HttpItems='HttpOk', Items='C05Items', Cfg='CfgPlain', MaxItems=3, ChunkMax=2)},
    ]
    r, results, seen = sessprop.standard_run(
        'C05', tier, seed, sessprop.wrapper('Mon_C05'), 'Mon_C05', insts, KINDS,
        rule='(a) every row of the automaton table printed by TLC (9 states x 256 bytes x distinguishing suffixes) run through the real '
             'validator whole / bytewise / split; (b) every well-formed and malformed class of Table 3-7 at start/middle/end of a short '
             'text, split into fragments at every subset of byte boundaries (incl. an empty first fragment), with and without a Ping '
             'between fragments, and as close reason, x reads per frame / per byte / random, and (every third) compressed by an RFC 7692 peer on a connection that negotiated permessage-deflate; (c) all frame sequences of the session model '
             'over a text-fragment alphabet; non-trivial = distinct (frame sequence, number of reads) with non-ASCII text bytes',
        nontrivial=nontrivial, need_actions=('FeedNext',), anchors=anchors, variants=variants, extra=extra, sample_keys=('ev',), keep_reads=True)
    need = {'rejected_text', 'non_ascii_text_delivered', 'ping_between_fragments', 'empty_first_fragment', 'close_reason',
            'compressed_fragmented_text', 'compressed_text_rejected'}
    missing = sorted(need - seen)
    return r.finish(vacuous=('never exercised: %s' % missing) if missing else None)


def replay(path, seed):
    case = json.load(open(path))['case']
    if case.get('kind') == 'utf8_table':
        from .. import world
        V = world.lomond_modules()['utf8validator'].Utf8Validator
        v = V()
        print('validator says', v.validate(bytes(case['row']['bytes'])), 'spec automaton says', case['row']['spec'])
        return 1
    return sessprop.standard_replay('C05', 'Mon_C05', KINDS, path, keep_reads=True)
