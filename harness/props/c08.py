"""C08 - the closing handshake completes correctly in both directions."""
from .. import sessprop

KINDS = {'cfg', 'srv', 'rd', 'ev', 'wr', 'wrf', 'call', 'stop', 'escape', 'hang', 'end'}
PLAIN = {"poll": 5, "ping_rate": 0, "ping_timeout": 0, "close_timeout": 0, "auto_pong": True}
AT = {"connecting", "connected", "ready", "text", "ping", "closing", "closed", "disconnected"}


def instances(tier):
    q = tier == 'quick'
    return [{"label": "close-orders", "cfg": PLAIN,
             "consts": dict(HttpItems='HttpOk', Items='C08Items', Cfg='CfgPlain', MaxItems=3, ChunkMax=2,
                            Reacts={"none", "send", "close", "badclose"}, ReactAt=AT, MaxReacts=2)}] + ([] if q else [
            {"label": "close-orders-deep-simulation", "cfg": PLAIN, "simulate": "num=30000", "depth": 300,
             "consts": dict(HttpItems='HttpOk', Items='C08Items', Cfg='CfgPlain', MaxItems=6, ChunkMax=3,
                            Reacts={"none", "send", "ping", "close", "badclose"}, ReactAt=AT | {"poll", "binary"}, MaxReacts=4)}])


def variants(sc, b):
    out = [('base', sc)]
    if sessprop.sampled(sc, b, 4):
        out.append(('zero-timeouts', sessprop.zero_timeouts(sc)))      # "disabled" spelled 0 instead of None
    if sessprop.sampled(sc, b, 9):
        out.append(('deflate', sessprop.via_deflate(sc, 'rand')))      # the same frames from an RFC 7692 peer
    return out


def nontrivial(log, sc):
    names = tuple(x['name'] for x in log if x['k'] == 'ev')
    calls = tuple((x['m'], x['at'], x['res']) for x in log if x['k'] == 'call')
    if any(x['k'] == 'wr' and x.get('op') == 8 for x in log):
        return names + calls
    return None


def anchors(log, sc):
    out = set(x['name'] for x in log if x['k'] == 'ev' and x['name'] in ('closing', 'closed'))
    calls = [x for x in log if x['k'] == 'call']
    if any(c['m'] == 'close' and c['nwr'] == 1 for c in calls):
        out.add('app_close_frame')
    if any(c['m'] != 'close' and c['res'] != 'ok' for c in calls):
        out.add('send_refused')
    evs = {x['i']: x['name'] for x in log if x['k'] == 'ev'}
    if any(c['m'] != 'close' and c['res'] == 'ok' and evs.get(c['at']) == 'closing' for c in calls):
        out.add('send_during_closing')
    if any(c['m'] == 'close' and evs.get(c['at']) == 'closing' for c in calls):
        out.add('close_during_closing')
    if any(c['m'] == 'close' and evs.get(c['at']) in ('connecting', 'connected') for c in calls):
        out.add('close_before_ready')
    return out


def run(tier, seed):
    r, results, seen = sessprop.standard_run(
        'C08', tier, seed, sessprop.wrapper('Mon_C08'), 'Mon_C08', instances(tier), KINDS,
        rule='all orders of application close()/send at any event (incl. Connecting, Connected, Closing) with server frames '
             '(data, fragments, ping, Close 1000+reason / empty / 4000) up to the bound; non-trivial = distinct histories in which a '
             'Close frame was written',
        nontrivial=nontrivial, need_actions=('CloseFin', 'CloseEcho', 'ExitGraceful', 'AppReact'), anchors=anchors, variants=variants, sample_keys=('ev', 'wr', 'call'),
        random_scripts=[{'cfgname': 'CfgPlain', 'cfg': PLAIN, 'n': (300, 4000), 'items': 'C08Items', 'faults': set()}])
    need = {'closing', 'closed', 'app_close_frame', 'send_refused', 'send_during_closing', 'close_during_closing', 'close_before_ready'}
    missing = sorted(need - seen)
    return r.finish(vacuous=('never exercised: %s' % missing) if missing else None)


def replay(path, seed):
    return sessprop.standard_replay('C08', 'Mon_C08', KINDS, path)
