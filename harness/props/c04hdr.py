"""C04 part (ii): the sweep over all 65536 two-byte frame headers (spec/GenHdr.tla prints the verdict table)."""
import struct

from .. import pipeline


def remainder(b1, b2):
    """The minimal legal remainder of a frame starting with bytes b1 b2: extended length, masking key, payload."""
    op = b1 & 15
    l7 = b2 & 127
    n = l7 if l7 < 126 else (126 if l7 == 126 else 65536)
    ext = b'' if l7 < 126 else (struct.pack('!H', 126) if l7 == 126 else struct.pack('!Q', 65536))
    payload = (b'\x03\xe8' + b'a' * (n - 2)) if (op == 8 and n >= 2) else b'a' * n
    key = b''
    if b2 & 128:
        key = b'\x00\x00\x00\x00'       # a zero key leaves the payload readable
    return ext + key + payload


def _run(job):
    from .. import world
    idx, (ctx, b1, b2) = job
    try:
        stream = [{"t": "http", "v": "ok"}]
        if ctx['deflate']:
            stream[0]['ext'] = 'permessage-deflate'
        if ctx['open'] == 'text':
            stream.append({"t": "f", "op": 1, "fin": 0, "pl": [97]})
        elif ctx['open'] == 'bin':
            stream.append({"t": "f", "op": 2, "fin": 0, "pl": [1]})
        stream.append({"t": "raw", "b": list(bytes([b1, b2]) + remainder(b1, b2))})
        stream.append({"t": "f", "op": 9, "fin": 1, "pl": [7, 7]})
        sc = {"conns": [{"stream": stream, "steps": [{"kind": "data", "items": len(stream)}]}], "ws_kwargs": {"compress": bool(ctx['deflate'])},
              "connect_kwargs": {"ping_rate": 0, "close_timeout": None}, "keep_events": False}
        log, _ = world.run_scenario(sc)
        evs = [x for x in log if x['k'] == 'ev']
        perr = sum(1 for x in evs if x['name'] == 'protocol_error')
        ping = any(x['name'] == 'ping' and x['pl']['s'] == [7, 7] for x in evs)
        term = evs[-1] if evs else {}
        bad_end = not (term.get('name') == 'disconnected')
        return idx, (perr, ping, bad_end, bool(term.get('graceful')), any(x['k'] in ('escape', 'hang') for x in log)), None
    except BaseException as e:
        import traceback
        return idx, None, 'HARNESS: %s\n%s' % (e, traceback.format_exc())


def add(run, tier):
    res, _ = pipeline.generate('GenHdr', "SPECIFICATION Spec\nINVARIANT EmitTable\nCHECK_DEADLOCK FALSE\n", timeout=900)
    run.add_tlc('GenHdr (verdict for every 2-byte header x context)', res)
    rows = [l for l in res.lines if isinstance(l, dict) and 'hdr' in l]
    if len(rows) != 256 * 2 * 6:
        raise pipeline.MachineryFailure('GenHdr printed %d rows instead of 3072' % len(rows))
    jobs, want = [], []
    for r in rows:
        ctx = {"deflate": bool(r['deflate']), "open": r['open']}
        full = tier == 'thorough' or (not ctx['deflate'] and ctx['open'] == 'none')
        b1, m = r['hdr']
        for l7 in range(128):
            if not full and l7 not in (0, 1, 2, 125, 126, 127):
                continue
            jobs.append((ctx, b1, m * 128 + l7))
            want.append(r['v'][l7])
    out = pipeline.execute(jobs, fn=_run)
    n_viol = n_ok = n_either = 0
    bad = []
    for (ctx, b1, b2), w, (perr, ping, bad_end, graceful, escaped) in zip(jobs, want, out):
        if w == 1:
            n_viol += 1
            good = perr == 1 and not ping and not bad_end and not graceful and not escaped
        elif w == 0:
            n_ok += 1
            good = perr == 0 and ping and not escaped
        else:
            n_either += 1
            good = not escaped and ((perr == 0 and ping) or (perr == 1 and not ping))
        if not good:
            bad.append({"ctx": ctx, "header": [b1, b2], "spec": {0: "accept", 1: "violation", 2: "either"}[w],
                        "code": {"protocol_errors": perr, "following_ping_delivered": ping, "graceful": graceful, "escaped": escaped}})
    run.evaluations += len(jobs)
    run.cov['header_sweep'] = {"headers_x_contexts": len(jobs), "must_reject": n_viol, "must_accept": n_ok, "either": n_either, "mismatches": len(bad)}
    for b in bad[:5]:
        run.violation('header_verdict_differs_from_spec_table', {"kind": "hdr", "row": b})
    if len(bad) > 5:
        run.violations.extend([('header_verdict_differs_from_spec_table', run.violations[-1][1])] * (len(bad) - 5))
