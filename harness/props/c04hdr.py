"""C04 part (ii): sweep over all 65536 two-byte frame headers (placeholder until built)."""


def add(run, tier):
    return
