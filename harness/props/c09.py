"""C09 - transport failures become events, never exceptions or hangs."""
import copy

from .. import sessprop

KINDS = {'cfg', 'ev', 'wr', 'wrf', 'call', 'sock', 'rd', 'stop', 'escape', 'hang', 'end'}
PLAIN = {"poll": 5, "ping_rate": 0, "ping_timeout": 0, "close_timeout": 0, "auto_pong": True}
TIMERS = {"poll": 5, "ping_rate": 5, "ping_timeout": 0, "close_timeout": 0, "auto_pong": True}
ALL_FAULTS = {"dns", "refused", "reqwrite", "recv_error", "recv_boom", "wait_raise", "write_error"}


def instances(tier):
    q = tier == 'quick'
    return [
        {"label": "fault-at-each-operation", "cfg": PLAIN,
         "consts": dict(HttpItems='HttpAll', Items='C09Items', Cfg='CfgPlain', MaxItems=2, ChunkMax=2,
                        Faults=ALL_FAULTS, NAddr=3, Reacts={"none", "send", "ping", "close"},
                        ReactAt={"connected", "ready", "text", "ping", "closing", "disconnected", "connect_fail"}, MaxReacts=1)},
        {"label": "auto-ping-write-faults", "cfg": TIMERS,
         "consts": dict(HttpItems='HttpOk', Items='C09Items', Cfg='CfgPing', MaxItems=1, ChunkMax=1, MaxIdle=2, Dts={0, 5},
                        Faults={"write_error", "recv_error"}, Reacts={"none"})},
    ] + ([] if q else [
        {"label": "faults-deep-simulation", "cfg": PLAIN, "simulate": "num=30000", "depth": 300,
         "consts": dict(HttpItems='HttpAll', Items='C09Items', Cfg='CfgPlain', MaxItems=6, ChunkMax=3, Faults=ALL_FAULTS, NAddr=3,
                        Reacts={"none", "send", "ping", "close"}, ReactAt={"connected", "ready", "text", "ping", "closing", "poll"}, MaxReacts=3)}])


_offset_budget = {}


def variants(sc, b):
    """base + (for fault-free-until-the-end behaviours without reactions) the terminal fault moved to every byte offset"""
    out = [('base', sc)]
    if sessprop.sampled(sc, b, 5):
        out.append(('wss', sessprop.via_tls(sc)))
        out.append(('proxy', sessprop.via_proxy(sc)))
        out.append(('wss-proxy', sessprop.via_proxy(sessprop.via_tls(sc))))
    conn = sc['conns'][0]
    reset = any(s['kind'] == 'error' for s in conn['steps']) or 'error' in conn.get('writes', [])
    if reset or sessprop.sampled(sc, b, 4):
        # after a reset the kernel answers shutdown() with ENOTCONN: the descriptor must be closed all the same
        out.append(('enotconn', dict(copy.deepcopy(sc), shutdown_raises=True)))
        if sessprop.sampled(sc, b, 8):
            out.append(('shutdown-boom', dict(copy.deepcopy(sc), shutdown_raises='boom')))
        elif sessprop.sampled(sc, b, 7):
            out.append(('shutdown-reset', dict(copy.deepcopy(sc), shutdown_raises='reset')))
    if 'error' in conn.get('writes', []):
        sc2 = copy.deepcopy(sc)
        sc2['conns'][0]['writes'] = ['boom' if x == 'error' else x for x in conn['writes']]
        out.append(('write-boom', sc2))          # sendall raising something that is not a socket error
    if conn.get('dns', 'ok') == 'ok' and sessprop.sampled(sc, b, 3):
        sc2 = copy.deepcopy(sc)                   # the first resolved address cannot even get a socket: the next one is tried
        sc2['conns'][0]['naddr'] = conn.get('naddr', 1) + 1
        sc2['conns'][0]['sockcreate'] = ['error']
        out.append(('create-fail', sc2))
    steps = sc['conns'][0]['steps']
    stream = sc['conns'][0]['stream']
    if sc['react'] or not steps or steps[-1]['kind'] not in ('eof', 'error', 'boom') or not stream:
        return out
    if any(s['kind'] != 'data' for s in steps[:-1]) or sc['conns'][0].get('writes', []) != ['ok'] * len(sc['conns'][0].get('writes', [])):
        return out
    key = repr(stream)
    lim = _offset_budget.setdefault('limit', 8)
    if key not in _offset_budget:
        if len(_offset_budget) > lim:
            return out
        _offset_budget[key] = True
    total = 150 + 8 * len(stream)
    for k in range(1, total, 1):
        sc2 = copy.deepcopy(sc)
        sc2['conns'][0]['steps'] = [{"kind": "data", "bytes": k}, dict(steps[-1])]
        out.append(('offset', sc2))
    return out


def nontrivial(log, sc):
    faults = tuple((x['k'], x.get('what') or x.get('why') or x.get('res') or x.get('op')) for x in log
                   if (x['k'] == 'rd' and x['what'] != 'data') or x['k'] == 'wrf' or (x['k'] == 'sock' and x.get('res') in ('refused', 'fail'))
                   or (x['k'] == 'wait' and x.get('why') == 'raise'))
    names = tuple(x['name'] for x in log if x['k'] == 'ev')
    pos = tuple(x.get('pos') for x in log if x['k'] == 'rd' and x['what'] == 'data')[-1:]
    return (faults, names, pos) if faults else None


def anchors(log, sc):
    out = set()
    for x in log:
        if x['k'] == 'rd' and x['what'] != 'data':
            out.add('recv_' + x['what'])
        if x['k'] == 'wrf':
            out.add('write_fail_op_%s' % x.get('op'))
        if x['k'] == 'sock' and x.get('res') == 'refused':
            out.add('refused')
        if x['k'] == 'sock' and x['op'] == 'dns' and x.get('res') == 'fail':
            out.add('dns_fail')
        if x['k'] == 'wait' and x.get('why') == 'raise':
            out.add('wait_raise')
        if x['k'] == 'call' and x['res'] == 'TransportFail':
            out.add('app_send_transport_fail')
    return out


def persist_chain(r):
    """Transport failures for ever: 1 100 consecutive refused connects under persist() - far more than any floating-point exponent
    takes - must stay events (judged by the persist monitor Mon_C16: no escape, no hang, one back-off per attempt)."""
    from . import c16
    from .. import pipeline
    n = 1100
    b = {"w": {"min": 1, "max": 60}, "names": [["connecting", "connect_fail"]] * n,
         "hist": [{"outcome": "connect_fail", "draw": [1, 2], "k": i + 1, "delay": [0, 1], "stop": i == n - 1} for i in range(n)]}
    sc = c16.scenario(b)
    log = pipeline.execute([sc])[0]
    obj = {"id": 0, "w": b['w'], "hist": b['hist'], "names": b['names'], "kw": c16.KW, "tr": sessprop.slim(log, c16.KINDS, drop=('msg', 'url', 'other'))}
    rej, states, wall = pipeline.judge('Mon_C16', [obj], field='')
    r.evaluations += 1
    r.traces += 1
    r.cov['persist_chain_of_refused_connects'] = n
    for tid, clause in rej:
        r.violation('persist_chain_' + clause, {"kind": "persist_chain", "scenario": sc, "events": [x.get('name', x['k']) for x in obj['tr']][-12:]})


def run(tier, seed):
    _offset_budget.clear()
    _offset_budget['limit'] = 6 if tier == 'quick' else 40
    r, results, seen = sessprop.standard_run(
        'C09', tier, seed, sessprop.wrapper('Mon_C09'), 'Mon_C09', instances(tier), KINDS | {'wait'},
        rule='every behaviour of the session model with a fault choice at each interaction point (DNS, each of 3 addresses, request '
             'write, every recv: EOF / socket error / arbitrary exception, every library or application sendall, selector wait) is '
             'replayed; for a set of base streams the terminal fault is moved to every byte offset; non-trivial = distinct '
             '(faults, event sequence, offset) triples',
        nontrivial=nontrivial, need_actions=('Connect', 'SendRequest', 'Recv', 'ExitNonGraceful', 'RegPing'), anchors=anchors, variants=variants, sample_keys=('ev', 'wrf', 'rd', 'sock'),
        random_scripts=[{'cfgname': 'CfgPlain', 'cfg': PLAIN, 'n': (300, 4000), 'http': 'HttpAll', 'items': 'C09Items', 'faults': {'all'}}])
    persist_chain(r)
    need = {'recv_eof', 'recv_error', 'recv_boom', 'write_fail_op_-1', 'write_fail_op_10', 'write_fail_op_8', 'write_fail_op_9',
            'write_fail_op_1', 'refused', 'dns_fail', 'wait_raise', 'app_send_transport_fail'}
    missing = sorted(need - seen)
    return r.finish(vacuous=('never exercised: %s' % missing) if missing else None)


def replay(path, seed):
    import json
    case = json.load(open(path))['case']
    if case.get('kind') == 'persist_chain':
        from .. import pipeline
        r = pipeline.Run('C09', 'quick', seed)
        persist_chain(r)
        if r.violations:
            print('VIOLATION property=C09 replay=%s clause=%s' % (path, r.violations[0][0]))
            return 1
        print('C09 replay: ok')
        return 0
    return sessprop.standard_replay('C09', 'Mon_C09', KINDS, path)
