"""C01 part (ii): the payload-length grid (placeholder until the grid generator is built)."""


def add(run, tier):
    return
