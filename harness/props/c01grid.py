"""C01 part (ii): the payload-length grid (spec/GenLen.tla)."""
import copy

from .. import pipeline, sessprop

KINDS = {'cfg', 'srv', 'rd', 'ev'}


def frame(op, fin, n, form, kind):
    f = {"t": "f", "op": op, "fin": fin, "blob": n, "blobkind": kind}
    if form:
        f['lenform'] = form
    return f


def scenario(c):
    n, form, place = c['len'], c['form'], c['place']
    small = {"t": "f", "op": 0, "fin": 1, "pl": [122]}
    if place == 'single_text':
        frames = [frame(1, 1, n, form, 'ascii')]
    elif place == 'single_binary':
        frames = [frame(2, 1, n, form, 'allbytes')]
    elif place == 'first_fragment':
        frames = [frame(2, 0, n, form, 'bin'), {"t": "f", "op": 0, "fin": 1, "pl": [1, 2]}]
    elif place == 'middle_fragment':
        frames = [{"t": "f", "op": 1, "fin": 0, "pl": [97]}, frame(0, 0, n, form, 'ascii'), small]
    elif place == 'last_fragment':
        frames = [{"t": "f", "op": 2, "fin": 0, "pl": [0]}, {"t": "f", "op": 9, "fin": 1, "pl": []}, frame(0, 1, n, form, 'allbytes')]
    elif place == 'ping':
        frames = [frame(9, 1, n, 0, 'allbytes')]
    elif place == 'pong':
        frames = [frame(10, 1, n, 0, 'allbytes')]
    else:
        frames = [{"t": "f", "op": 1, "fin": 0, "pl": [97]}, frame(9, 1, n, 0, 'allbytes'), {"t": "f", "op": 0, "fin": 1, "pl": [98]}]
    frames.append({"t": "f", "op": 2, "fin": 1, "pl": [255]})
    return {"conns": [{"stream": [{"t": "http", "v": "ok"}] + frames}], "connect_kwargs": {"ping_rate": 0, "close_timeout": None}}


def add(run, tier):
    res, _ = pipeline.generate('GenLen', "SPECIFICATION Spec\nINVARIANT EmitCases\nCHECK_DEADLOCK FALSE\n")
    run.add_tlc('GenLen (length grid)', res)
    cases = [l for l in res.lines if isinstance(l, dict) and 'lencase' in l]
    if not cases:
        raise pipeline.MachineryFailure('GenLen printed no cases')
    jobs = []
    for c in cases:
        sc = scenario(c['lencase'])
        jobs.append((c, 'per_frame', sc))
        one = copy.deepcopy(sc)
        one['conns'][0]['steps'] = [{"kind": "data", "items": len(sc['conns'][0]['stream'])}]      # one burst: larger than the 64 KiB receive buffer
        jobs.append((c, 'one_burst', one))
        jobs.append((c, 'random_cuts', sessprop.reseg(dict(sc, conns=[dict(sc['conns'][0], steps=[{"kind": "data", "items": 1}])]), 'rand')
                     if c['lencase']['len'] <= 127 else dict(one, buffer_size=4096)))
    logs = pipeline.execute([j[2] for j in jobs])
    traces = [{"id": i, "tr": sessprop.slim(l, KINDS)} for i, l in enumerate(logs)]
    rej, states, wall = pipeline.judge('Mon_C01', traces)
    run.states += states
    run.transitions += states
    run.evaluations += len(jobs)
    run.traces += len(jobs)
    run.tlc_runs.append({"run": "judge Mon_C01 (length grid)", "traces": len(traces), "wall_s": round(wall, 1)})
    run.cov['length_grid'] = {"cases": len(cases), "executions": len(jobs), "non_minimal_encodings": len([c for c in cases if not c['minimal']])}
    delivered = sum(1 for l in logs if len([x for x in l if x['k'] == 'ev' and x['name'] in ('text', 'binary', 'ping', 'pong')]) >= 2)
    run.cov['length_grid']['executions_with_all_messages_delivered'] = delivered
    for tid, clause in rej:
        c, pol, sc = jobs[tid]
        run.violation(clause, {"instance": "length-grid/" + pol, "scenario": sc, "case": c})
    if delivered < len(jobs):
        run.note('length grid: %d of %d executions did not deliver every message' % (len(jobs) - delivered, len(jobs)))
