"""C12 - close() is atomic with respect to other threads' sends and closes."""
from .. import threadprop

PROGRAMS = [
    ("close-vs-send", {"compress": False, "threads": {"A": [["close"]], "B": [["send_text", "B1"], ["send_binary", [66, 50]]]}}),
    ("close-vs-close", {"compress": False, "threads": {"A": [["close"]], "B": [["close"], ["send_text", "B2"]]}}),
    ("close-vs-compressed-send", {"compress": True, "threads": {"A": [["send_text", "hello hello A1"], ["close"]], "B": [["send_text", "hello hello B1"]]}}),
    # Close frames with an empty payload (close(None), the echo of a server Close without status)
    ("empty-close-vs-send", {"compress": False, "threads": {"A": [["close_empty"]], "B": [["send_text", "B1"], ["send_binary", [66, 50]]]}}),
    ("empty-close-echo-vs-close-and-send", {"compress": False, "threads": {"L": [["loop_close_echo_empty"]], "A": [["close"]], "B": [["send_text", "B1"]]}}),
    # close(), then the consumer abandons the iterator (feed()'s GeneratorExit handler -> on_disconnect()) while another thread sends
    ("close-then-abandon-vs-send", {"compress": False, "threads": {"L": [["close"], ["loop_on_disconnect"]], "B": [["send_text", "B1"], ["send_binary", [66, 50]]]}}),
    ("close-vs-loop-echo", {"compress": False, "threads": {"A": [["close"]], "L": [["loop_close_echo", 1000]], "B": [["send_ping", [7]]]}}),
    ("close-vs-loop-pong-and-ping", {"compress": False, "threads": {"A": [["close"]], "L": [["loop_pong", [1]], ["loop_autoping"]], "B": [["send_text", "B1"]]}}),
]
BQ = {name: 1 for name, _ in PROGRAMS}
BT = {"close-then-abandon-vs-send": 1, "empty-close-vs-send": 1, "empty-close-echo-vs-close-and-send": 1, "close-vs-send": 2, "close-vs-close": 2, "close-vs-compressed-send": 2, "close-vs-loop-echo": 1, "close-vs-loop-pong-and-ping": 1}
RULE = ('every schedule with at most 1-2 pre-emptions (line granularity, stateless exhaustive search) of 8 thread programs built around close() (with and without a status code): close() against '
        'send_text/send_binary/send_ping, against another close(), against the loop echoing a server Close, answering a Ping and sending an automatic Ping; every '
        'sendall split in two steps; every schedule with one pre-emption at OPCODE granularity for the two-thread programs; thorough adds 3000 random opcode-granular schedules; non-trivial = distinct (program, wire order, call results)')


def run(tier, seed):
    return threadprop.run_property('C12', 'Mon_C12', tier, seed, PROGRAMS, BQ, BT, RULE, {'interleaved_threads', 'close_frame', 'send_refused'})


def replay(path, seed):
    return threadprop.replay('C12', 'Mon_C12', path)
