"""C04 - protocol violations are detected, reported once, and fail the connection."""
from .. import sessprop

KINDS = {'cfg', 'srv', 'rd', 'ev', 'wr', 'call'}
PLAIN = {"poll": 5, "ping_rate": 0, "ping_timeout": 0, "close_timeout": 0, "auto_pong": True}


def instances(tier):
    q = tier == 'quick'
    return [{"label": "violations-among-valid-frames", "cfg": PLAIN,
             "consts": dict(HttpItems='HttpOk', Items='C04Items', Cfg='CfgPlain', MaxItems=2, ChunkMax=2, Conforming=False)},
            {"label": "fragment-discipline", "cfg": PLAIN,
             "consts": dict(HttpItems='HttpOk', Items='C04FragItems', Cfg='CfgPlain', MaxItems=3 if q else 4, ChunkMax=2, Conforming=False)},
            {"label": "invalid-utf8-inside-fragmented-text", "cfg": PLAIN,
             "consts": dict(HttpItems='HttpOk', Items='C04Utf8FragItems', Cfg='CfgPlain', MaxItems=3 if q else 4, ChunkMax=2, Conforming=False)},
            {"label": "violations-while-closing", "cfg": PLAIN,
             "consts": dict(HttpItems='HttpOk', Items='C04CloseItems', Cfg='CfgPlain', MaxItems=3, ChunkMax=2,
                            Conforming=False, Reacts={"none", "close"}, ReactAt={"ready", "text"}, MaxReacts=1)}] + ([] if q else [
            {"label": "violations-deep-simulation", "cfg": PLAIN, "simulate": "num=30000", "depth": 300,
             "consts": dict(HttpItems='HttpOk', Items='C04Items', Cfg='CfgPlain', MaxItems=6, ChunkMax=3, Conforming=False,
                            Reacts={"none", "close"}, ReactAt={"ready", "text", "ping"}, MaxReacts=1)}])


def variants(sc, b):
    return [('base', sc), ('bytewise', sessprop.reseg(sc, 1)), ('randcuts', sessprop.reseg(sc, 'rand'))]


def _viol(log):
    return [x for x in log if x['k'] == 'ev' and x['name'] == 'protocol_error']


def nontrivial(log, sc):
    if not _viol(log):
        return None
    return tuple((x['op'], x['fin'], x['rsv1'], x['rsv2'], x['rsv3'], x['mask'], x['ann'], tuple(x['pl']['s']), x['pl']['n'][1])
                 for x in log if x['k'] == 'srv' and x.get('it') == 'f')


def anchors(log, sc):
    out = set()
    if _viol(log):
        out.add('critical' if _viol(log)[0]['critical'] else 'noncritical')
        if any(x['k'] == 'wr' and x.get('op') == 8 for x in log):
            out.add('close_frame_after_violation')
        if any(x['k'] == 'ev' and x['name'] in ('text', 'binary', 'ping') for x in log):
            out.add('valid_prefix_delivered')
    return out


def run(tier, seed):
    from . import c04hdr
    r, results, seen = sessprop.standard_run(
        'C04', tier, seed, sessprop.wrapper('Mon_C04'), 'Mon_C04', instances(tier), KINDS,
        rule='all sequences over {4 valid frames} + {45 violating frames, one or more per RFC 6455 violation class} up to the bound, '
             'x 3 read segmentations; plus the sweep over all 65536 two-byte headers; non-trivial = distinct frame sequences in '
             'which the real code reported a protocol error',
        nontrivial=nontrivial, need_actions=('FeedNext', 'ErrClose', 'ExitNonGraceful'), anchors=anchors, variants=variants, sample_keys=('ev', 'wr'),
        random_scripts=[{'cfgname': 'CfgPlain', 'cfg': PLAIN, 'n': (300, 4000), 'items': 'C04Items', 'faults': set()}],
        extra=lambda run: c04hdr.add(run, tier))
    missing = sorted({'critical', 'noncritical', 'close_frame_after_violation', 'valid_prefix_delivered'} - seen)
    return r.finish(vacuous=('never exercised: %s' % missing) if missing else None)


def replay(path, seed):
    return sessprop.standard_replay('C04', 'Mon_C04', KINDS, path)
