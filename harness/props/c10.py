"""C10 - Ready is granted only for a correct upgrade reply to a well-formed request."""
import copy
import json

from .. import sessprop, pipeline

KINDS = {'wr', 'ev', 'conn', 'sock', 'rd', 'end', 'cfg'}


def url_of(u):
    s = '%s://%s' % (u['scheme'], u['host'])
    if u['port']:
        s += ':%d' % u['port']
    s += u['path']
    if u['query']:
        s += '?' + u['query']
    return s


def scenario(case, exp, spell, seg, nconn):
    reply = dict(case['reply'])
    reply['spell'] = spell
    conn = {"stream": [reply]}
    if seg == 'one':
        conn['steps'] = [{"kind": "data", "items": 1}]
    elif seg == 'bytewise':
        conn['steps'] = [{"kind": "drain", "bytes": 1}]
    elif seg.startswith('head'):
        # a first read of 1..3 bytes (shorter than the header terminator), everything else in the second
        conn['steps'] = [{"kind": "data", "bytes": int(seg[4:])}, {"kind": "drain", "bytes": 65536}]
    else:
        conn['steps'] = [{"kind": "drain", "bytes": "rand", "max": 40}]
    opt = case['opt']
    wk = {"compress": bool(opt['compress'])}
    if opt['protocols']:
        wk['protocols'] = list(opt['protocols'])
    if opt['agent']:
        wk['agent'] = opt['agent']
    sc = {"url": exp['urlstr'], "ws_kwargs": wk, "headers": [list(h) for h in opt['headers']],
          "conns": [copy.deepcopy(conn) for _ in range(nconn)], "nconnect": nconn, "seed": spell,
          "connect_kwargs": {"ping_rate": 0, "close_timeout": None}}
    return sc


def run(tier, seed):
    q = tier == 'quick'
    r = pipeline.Run('C10', tier, seed)
    r.rule = ('every reply class of spec/GenC10.tla (status x Upgrade x 9 accept classes x size classes around 16 KiB, negotiated protocol / '
              'extension) and every URL shape x client option set, each in %d spellings (header order, casing, whitespace, obs-fold, duplicate '
              'unrelated headers) x 3 segmentations, with 2 connection attempts on the same object (key freshness); the accept digest is computed '
              'by the harness from the key parsed out of the request actually written; non-trivial = distinct (case, spelling) pairs'
              % (2 if q else 6))
    r.assumptions = ['SHA-1/base64 digest and base64 validity of the key are established by the harness (hashlib/base64), the specification treats '
                     'the digest as an injective function', 'equivalent header spellings are produced by the concretiser per RFC 7230']
    res, _ = pipeline.generate('GenC10', "SPECIFICATION Spec\nINVARIANT EmitCases\nCHECK_DEADLOCK FALSE\n")
    r.add_tlc('GenC10 (reply classes, URL shapes, options; Handshake!HVerdict)', res)
    from . import c10hdr
    c10hdr.add(r, tier)
    cases = [l for l in res.lines if isinstance(l, dict) and 'case' in l]
    if not cases:
        raise pipeline.MachineryFailure('GenC10 printed no cases')
    jobs = []
    spells = [0, 1 + seed] if q else [0] + [1 + seed + k for k in range(5)]
    for c in cases:
        for sp in spells:
            for seg in (('one', 'rand', 'head%d' % (1 + len(jobs) % 3)) if q else ('one', 'bytewise', 'rand', 'head1', 'head2', 'head3')):
                if seg == 'bytewise' and c['case']['reply']['size'] != 'normal' and sp > 1 + seed:
                    continue
                jobs.append((c, sp, seg, scenario(c['case'], c['exp'], sp, seg, 2)))
    logs = pipeline.execute([j[3] for j in jobs])
    r.evaluations += len(jobs)
    r.traces += len(jobs)
    traces, nt, seen = [], set(), set()
    for i, ((c, sp, seg, sc), log) in enumerate(zip(jobs, logs)):
        tr = sessprop.slim(log, KINDS, drop=('msg', 'url', 'len'), keep_reads=True)
        traces.append({"id": i, "case": c['case'], "exp": c['exp'], "tr": tr})
        nt.add((json.dumps(c['case'], sort_keys=True), sp))
        for x in log:
            if x['k'] == 'ev' and x['name'] in ('ready', 'rejected', 'protocol_error'):
                seen.add(x['name'])
    rej, states, wall = pipeline.judge('Mon_C10', traces, field='')
    r.states += states
    r.transitions += states
    r.tlc_runs.append({"run": "judge Mon_C10", "objects": len(traces), "wall_s": round(wall, 1)})
    r.nontrivial = len(nt)
    r.exhaustive = True
    r.cov['cases'] = len(cases)
    r.cov['outcomes_seen'] = sorted(seen)
    for i in (0, len(jobs) // 2):
        r.samples.append({"case": jobs[i][0]['case'], "expected": jobs[i][0]['exp'], "spelling": jobs[i][1], "segmentation": jobs[i][2],
                          "events": [x['name'] for x in logs[i] if x['k'] == 'ev']})
    for tid, clause in rej:
        c, sp, seg, sc = jobs[tid]
        r.violation(clause, {"case": c['case'], "exp": c['exp'], "spelling": sp, "segmentation": seg, "scenario": sc,
                             "events": [x for x in traces[tid]['tr'] if x['k'] == 'ev']},
                    known_sig={"clause": clause, "accept_class": c['case']['reply']['accept']})
    missing = sorted({'ready', 'rejected', 'protocol_error'} - seen)
    return r.finish(vacuous=('never exercised: %s' % missing) if missing else None)


def replay(path, seed):
    from .. import world
    case = json.load(open(path))['case']
    if case.get('kind') == 'hdrblock':
        Response = world.lomond_modules()['response'].Response
        row = case['row']
        got = Response(row['raw'].encode('latin-1')).get_list(row['field'])
        print('raw header block: %r\nspec (RFC 7230): %s\ncode: %s' % (row['raw'], row['spec'], got))
        from . import c10hdr
        if [c10hdr.norm(v) for v in got] != row['spec']:
            print('VIOLATION property=C10 replay=%s clause=header_block_read_differently_from_rfc7230' % path)
            return 1
        print('C10 replay: ok')
        return 0
    log, _ = world.run_scenario(case['scenario'])
    tr = sessprop.slim(log, KINDS, drop=('msg', 'url', 'len'), keep_reads=True)
    for x in tr:
        if x['k'] in ('ev', 'wr'):
            print(json.dumps(x)[:400])
    rej, _, _ = pipeline.judge('Mon_C10', [{"id": 0, "case": case['case'], "exp": case['exp'], "tr": tr}], field='')
    if rej:
        print('VIOLATION property=C10 replay=%s clause=%s' % (path, rej[0][1]))
        return 1
    print('C10 replay: ok')
    return 0
