"""C18 - available data is always drained without waiting for more traffic."""
import json

from .. import sessprop, pipeline

KINDS = {'cfg', 'srv', 'ev', 'wr', 'arr', 'block', 'stall', 'hang', 'escape'}
SMALL = [{"t": "f", "op": 1, "fin": 1, "pl": []}, {"t": "f", "op": 9, "fin": 1, "pl": []}]


def scaled(b, selector, variant):
    """A behaviour of spec/Transport.tla as a scenario with BUFFER_SIZE 8: 2-byte frames (empty text, empty ping) fill the bursts."""
    total = sum(b['bursts'])
    if variant == 2:
        # 4-byte text frames carrying one two-byte character each: records and short reads cut inside characters
        frames = [{"t": "f", "op": 1, "fin": 1, "pl": [0xC3, 0xA9]} for _ in range(total // 4)] + [dict(SMALL[1]) for _ in range((total % 4) // 2)]
    elif variant == 3:
        frames = [dict(SMALL[0]) for i in range(total // 2)]         # text only: no automatic replies
    else:
        frames = [dict(SMALL[(i + variant) % 2]) for i in range(total // 2)]
    sc = {"url": "wss://example.com/" if b['tls'] else "ws://example.com/", "buffer_size": 8, "selector": selector,
            "conns": [{"stream": [{"t": "http", "v": "ok"}] + frames}],
            "connect_kwargs": {"ping_rate": 0, "close_timeout": None},
            "transport": {"tls": bool(b['tls']), "rec": b['rec'], "short": b['short'], "bursts": list(b['bursts']),
                          "dts": [1 + (i % 2) for i in range(len(b['bursts']))]}}
    if variant == 5:
        # a second live connection of the process reads (into ITS receive buffer) while a handler of this one runs
        sc['react'] = {'%s#%d' % (n_, k): [["other_recv", 8]] for n_ in ('text', 'ping', 'poll') for k in range(4)}
    if variant == 4:
        # the application has called close() at Ready: what arrives afterwards (Pings included) is still drained and delivered
        sc['react'] = {"ready#0": [["close"]]}
    if variant == 3:
        # an application thread is blocked in a large send (the peer reads only after it has been read from): reading must not need the write lock
        sc['writer_blocked'] = True
    return sc


def real_size(tier, seed):
    """Real constants: 16 KiB records, 64 KiB receive buffer; bursts around the buffer size; many small frames per record."""
    out = []
    B = 65536
    for tls in (False, True):
        for size in (B - 1, B, B + 1, 2 * B + 1):
            # one burst of `size` bytes made of a large binary frame followed by small frames
            big = size - 40 - (10 if size - 50 >= 65536 else 4)
            frames = [{"t": "f", "op": 2, "fin": 1, "blob": big, "blobkind": "bin"}] + [dict(SMALL[i % 2]) for i in range(20)]
            out.append({"url": "wss://example.com/" if tls else "ws://example.com/",
                        "conns": [{"stream": [{"t": "http", "v": "ok"}] + frames}],
                        "connect_kwargs": {"ping_rate": 0, "close_timeout": None},
                        "transport": {"tls": tls, "rec": 16384, "short": None if not tls else 16384, "bursts": [size], "dts": [2]}})
        frames = [dict(SMALL[i % 2]) for i in range(1000)]
        out.append({"url": "wss://example.com/" if tls else "ws://example.com/",
                    "conns": [{"stream": [{"t": "http", "v": "ok"}] + frames}],
                    "connect_kwargs": {"ping_rate": 0, "close_timeout": None},
                    "transport": {"tls": tls, "rec": 16384, "short": 700 if tls else None, "bursts": [1000, 1000], "dts": [1, 3]}})
    # the handshake reply arriving in the same burst (and the same read) as more than 16 KiB of frames
    for tls in (False, True):
        frames = [{"t": "f", "op": 2, "fin": 1, "blob": 20000, "blobkind": "bin"}] + [dict(SMALL[i % 2]) for i in range(20)]
        out.append({"url": "wss://example.com/" if tls else "ws://example.com/",
                    "conns": [{"stream": [{"t": "http", "v": "ok"}] + frames}],
                    "connect_kwargs": {"ping_rate": 0, "close_timeout": None},
                    "transport": {"tls": tls, "rec": 16384, "short": None, "bursts": [], "dts": [], "reply_shares_burst": True}})
    return out


def run(tier, seed):
    q = tier == 'quick'
    r = pipeline.Run('C18', tier, seed)
    r.rule = ('every behaviour of spec/Transport.tla (plain / TLS x record sizes x short-read caps x up to %d bursts of 2..10 bytes, receive buffer 8) '
              'replayed with the real loop, frame parser and selector classes (poll, select, kqueue) on a scaled-down BUFFER_SIZE, plus the real '
              'constants (16 KiB records, 64 KiB buffer, bursts of B-1, B, B+1, 2B+1 bytes, 1000 frames per record); non-trivial = distinct '
              'scenarios in which a burst carried more than one read\'s worth of data' % (3 if q else 4))
    r.assumptions = ['the transport model (kernel buffer, TLS record layer with pending(), short reads) stands in for the kernel and OpenSSL',
                     'TLS record size <= receive buffer (16 KiB <= 64 KiB in reality); bursts consist of whole records',
                     'the real-loopback supplement (thorough tier, harness/loopback.py) is a sanity check with real sockets and OpenSSL; the decision procedure is the transport model']
    cfgt = ("SPECIFICATION Spec\nCONSTANTS Buf = 8\n Records = {3, 4, 8}\n Shorts = {1, 3, 8}\n BurstSizes = {2, 4, 6, 10}\n MaxBursts = %d\n PendingShortcut = %s\n"
            "INVARIANT NoStall\nINVARIANT Drained\nINVARIANT BlockOnlyWhenDrained\nINVARIANT Emit\nCHECK_DEADLOCK FALSE\n")
    res, beh = pipeline.generate('Transport', cfgt % (3 if q else 4, 'TRUE'))
    r.add_tlc('Transport.tla (NoStall, Drained) with the pending() short-cut', res)
    if res.violated:
        raise pipeline.MachineryFailure('Transport.tla violates %s' % res.violated)
    # sanity of the model: without the short-cut TLC must find the stall (otherwise the model cannot express the property)
    res0, _ = pipeline.generate('Transport', (cfgt % (2, 'FALSE')).replace('INVARIANT Emit\n', ''))
    r.add_tlc('Transport.tla without the short-cut (must violate NoStall)', res0)
    if res0.violated != 'NoStall':
        raise pipeline.MachineryFailure('Transport.tla cannot express the stall (expected NoStall to fail without the pending() short-cut)')
    apalache_inductive(r)
    seen_b = set()
    jobs = []
    for b in beh:
        key = json.dumps(b, sort_keys=True)
        if key in seen_b or not b['bursts']:
            continue
        seen_b.add(key)
        if not b['tls'] and (b['rec'] != 4 or b['short'] != 8):
            continue            # record size / short reads are irrelevant on plain TCP
        for si, sel in enumerate(('poll', 'select', 'kqueue')):
            if q and si != (len(seen_b) % 3):
                continue
            jobs.append(scaled(b, sel, si))
        if len(seen_b) % 4 == 0:
            jobs.append(scaled(b, 'poll', 3))
        if len(seen_b) % 4 == 2:
            jobs.append(scaled(b, 'poll', 4))
        if len(seen_b) % 4 == 1:
            jobs.append(scaled(b, 'poll', 5))
    jobs += real_size(tier, seed)
    logs = pipeline.execute(jobs)
    r.evaluations = len(jobs)
    r.traces = len(jobs)
    traces = [{"id": i, "tr": sessprop.slim(l, KINDS)} for i, l in enumerate(logs)]
    nt = set()
    for i, (sc, l) in enumerate(zip(jobs, logs)):
        reads = len([x for x in l if x['k'] == 'rd'])
        if reads > len(sc['transport']['bursts']) + 20:
            nt.add(i)
    rej, states, wall = pipeline.judge('Mon_C18', traces)
    r.states += states
    r.transitions += states
    r.tlc_runs.append({"run": "judge Mon_C18", "traces": len(traces), "wall_s": round(wall, 1)})
    r.nontrivial = len(nt)
    r.exhaustive = q
    r.cov['scaled_scenarios'] = len(jobs) - len(real_size(tier, seed))
    r.cov['real_size_scenarios'] = len(real_size(tier, seed))
    for i in (0, len(jobs) // 2, len(jobs) - 1):
        r.samples.append({"transport": jobs[i]['transport'], "selector": jobs[i].get('selector', 'poll'), "buffer_size": jobs[i].get('buffer_size', 65536),
                          "blocks": [x for x in traces[i]['tr'] if x['k'] == 'block'][:6]})
    for tid, clause in rej:
        r.violation(clause, {"scenario": jobs[tid], "trace": [x for x in traces[tid]['tr'] if x['k'] != 'srv'][:80]})
    if not q:
        loopback_supplement(r)
    return r.finish()


def apalache_inductive(r):
    """Unbounded design argument: Apalache discharges `Init => IndInv` and `IndInv /\\ Next => IndInv'` for spec/TransportInd.tla, i.e. for
    every buffer size, record size <= buffer, short-read cap and burst pattern; without the pending() short-cut the step must fail."""
    from .. import apalache
    out = apalache.inductive('TransportInd', broken={'step_without_shortcut': ('IF tls /\\ tbuf > 0 THEN pc\' = "recv"', 'IF FALSE THEN pc\' = "recv"')})
    r.cov['apalache_inductive_invariant'] = out
    if out.get('base') == 'OK' and out.get('step') == 'OK' and out.get('step_without_shortcut') == 'VIOLATED':
        r.tlc_runs.append({"run": "apalache-mc TransportInd.tla: IndInv inductive for all parameters; not inductive without the pending() short-cut", "result": out})
    else:
        r.note('Apalache inductive-invariant run did not give the expected results: %s' % out)


def loopback_supplement(r):
    """Real loopback TCP and TLS runs (harness/loopback.py, a process of its own without shims).  Sanity supplement: only a message
    that clearly waited for the poll time-out counts as a violation; anything else unusual is a note."""
    import os
    import subprocess
    import sys
    from .. import loopback
    here = os.path.dirname(os.path.dirname(os.path.dirname(os.path.abspath(__file__))))
    try:
        p = subprocess.run([sys.executable, '-m', 'harness.loopback'], cwd=here, stdout=subprocess.PIPE, stderr=subprocess.PIPE, timeout=300)
        res = json.loads(p.stdout.decode().strip().split('\n')[-1])
    except Exception as e:
        r.note('loopback supplement could not run: %r' % (e,))
        return
    r.cov['loopback_supplement'] = res
    for x in res:
        if x.get('max_lateness_s', 0) >= 0.8 * loopback.POLL:
            r.violation('loopback_message_waited_for_the_poll_timeout', {"kind": "loopback", "result": x})
        elif not x.get('ok', True) or x.get('error') or x.get('skipped'):
            r.note('loopback supplement: %s' % json.dumps(x))


def replay(path, seed):
    return sessprop.standard_replay('C18', 'Mon_C18', KINDS, path)
