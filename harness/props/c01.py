"""C01 - every server message is delivered once, in order, byte-exact."""
from .. import sessprop

KINDS = {'cfg', 'srv', 'rd', 'ev', 'call'}
PLAIN = {"poll": 5, "ping_rate": 0, "ping_timeout": 0, "close_timeout": 0, "auto_pong": True}


def instances(tier):
    q = tier == 'quick'
    out = [{"label": "conforming-server", "cfg": PLAIN,
            "consts": dict(HttpItems='HttpOk', Items='C01Items', Cfg='CfgPlain', MaxItems=3, ChunkMax=2, Conforming=True)}]
    # the application closes (or sends) at some event: what the server sends afterwards is still delivered, up to its Close
    out.append({"label": "conforming-server-while-the-application-closes", "cfg": PLAIN,
                "consts": dict(HttpItems='HttpOk', Items='C01ItemsSmall', Cfg='CfgPlain', MaxItems=2 if q else 3, ChunkMax=2, Conforming=True,
                               Reacts={"none", "close", "send", "ping"}, ReactAt={"ready", "text", "ping", "binary"}, MaxReacts=1)})
    if not q:
        out.append({"label": "conforming-server-deep-simulation", "cfg": PLAIN, "simulate": "num=30000", "depth": 300,
                    "consts": dict(HttpItems='HttpOk', Items='C01Items', Cfg='CfgPlain', MaxItems=8, ChunkMax=4, Conforming=True)})
    return out


def variants(sc, b):
    out = [('base', sc), ('bytewise', sessprop.reseg(sc, 1)), ('randcuts', sessprop.reseg(sc, 'rand'))]
    if sessprop.sampled(sc, b, 5):
        # the same messages from an RFC 7692 peer on a connection that negotiated permessage-deflate (other parser path: no incremental
        # UTF-8 validation, RSV1 allowed): complete data messages compressed, same fragmentation, Ping / Pong between fragments kept
        out.append(('deflate', sessprop.via_deflate(sc, 'rand')))
    if sessprop.sampled(sc, b, 4) and not sc.get('react'):
        out.append(('second-connection', sessprop.with_second_connection(sc)))      # another live connection reads during every handler
    return out


def nontrivial(log, sc):
    frames = [(x['op'], x['fin'], tuple(x['pl']['s'])) for x in log if x['k'] == 'srv' and x.get('it') == 'f']
    frag = any(f[1] == 0 for f in frames)
    return tuple(frames) if frag else None


def anchors(log, sc):
    out = set(x['name'] for x in log if x['k'] == 'ev')
    fr = [x for x in log if x['k'] == 'srv' and x.get('it') == 'f']
    for a, b2 in zip(fr, fr[1:]):
        if a['fin'] == 0 and b2['op'] >= 8:
            out.add('control_between_fragments')
    if any(x['fin'] == 0 and not x['pl']['s'] for x in fr):
        out.add('empty_fragment')
    return out


def run(tier, seed):
    from . import c01grid
    r, results, seen = sessprop.standard_run(
        'C01', tier, seed, sessprop.wrapper('Mon_C01'), 'Mon_C01', instances(tier), KINDS,
        rule='all conforming frame sequences of the bounded server automaton x 3 read segmentations (model chunking, one byte per '
             'read, seeded random cuts), every fifth also compressed by an RFC 7692 peer (permessage-deflate negotiated), plus the payload-length grid; non-trivial = distinct frame sequences with a fragmented message',
        nontrivial=nontrivial, need_actions=('Recv', 'FeedNext', 'Chunk', 'CloseEcho'), anchors=anchors, variants=variants, extra=lambda run: c01grid.add(run, tier))
    need = {'text', 'binary', 'ping', 'pong', 'closing', 'control_between_fragments', 'empty_fragment'}
    missing = sorted(need - seen)
    return r.finish(vacuous=('never exercised: %s' % missing) if missing else None)


def replay(path, seed):
    return sessprop.standard_replay('C01', 'Mon_C01', KINDS, path)
