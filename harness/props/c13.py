"""C13 - abandoning the event loop at any event releases the socket."""
import copy

from .. import sessprop, replay as rp

KINDS = {'cfg', 'ev', 'abandon', 'sock', 'sel', 'end', 'call'}
PLAIN = {"poll": 5, "ping_rate": 0, "ping_timeout": 0, "close_timeout": 0, "auto_pong": True}
TIMERS = {"poll": 5, "ping_rate": 5, "ping_timeout": 5, "close_timeout": 5, "auto_pong": True}
EVENTS = {"connecting", "connected", "ready", "rejected", "poll", "text", "binary", "ping", "pong", "closing", "closed",
          "protocol_error", "unresponsive", "disconnected", "connect_fail"}


def instances(tier):
    q = tier == 'quick'
    return [
        {"label": "abandon-at-every-event", "cfg": PLAIN,
         "consts": dict(HttpItems='HttpAll', Items='C13Items', Cfg='CfgPlain', MaxItems=2, ChunkMax=2,
                        Faults={"refused", "recv_error", "reqwrite"}, Reacts={"none", "close"}, ReactAt={"connecting", "connected", "ready", "text", "closing"},
                        MaxReacts=1, AbandonAt=EVENTS)},
        {"label": "abandon-at-housekeeping-events", "cfg": TIMERS,
         "consts": dict(HttpItems='HttpOk', Items='C13Items', Cfg='CfgTimers', MaxItems=1, ChunkMax=1, MaxIdle=3, Dts={0, 5},
                        Reacts={"none", "close"}, ReactAt={"ready", "poll"}, MaxReacts=1, AbandonAt=EVENTS)},
        {"label": "abandon-after-failed-write", "cfg": PLAIN,
         "consts": dict(HttpItems='HttpOk', Items='C13Items', Cfg='CfgPlain', MaxItems=1, ChunkMax=1,
                        Faults={"write_error"}, Reacts={"none", "send", "close"}, ReactAt={"ready", "text", "ping"},
                        MaxReacts=1, AbandonAt=EVENTS)},
    ] + ([] if q else [
        {"label": "abandon-deep-simulation", "cfg": TIMERS, "simulate": "num=30000", "depth": 300,
         "consts": dict(HttpItems='HttpAll', Items='C13Items', Cfg='CfgTimers', MaxItems=5, ChunkMax=3, MaxIdle=3, Dts={0, 2, 5},
                        Faults={"refused", "recv_error"}, Reacts={"none", "send", "close"}, ReactAt={"connected", "ready", "text", "poll", "closing"},
                        MaxReacts=2, AbandonAt=EVENTS)}])


def variants(sc, b):
    if not any(r['call'] == 'abandon' for r in b['script'].get('react', [])):
        return []
    out = []
    for mech in rp.MECHS:
        sc2 = copy.deepcopy(sc)
        for k, calls in sc2['react'].items():
            for c in calls:
                if c[0] == 'abandon':
                    c[1] = mech
        sc2['with_block'] = (mech == 'with')
        out.append(('base' if mech == 'break' else mech, sc2))
        if sessprop.sampled(sc2, b, 6):
            out.append((mech + '-wss', sessprop.via_tls(sc2)))
            out.append((mech + '-proxy', sessprop.via_proxy(sc2)))
        if sessprop.sampled(sc2, b, 3):
            # a reset connection: shutdown() answers ENOTCONN, the descriptor must be closed all the same
            out.append((mech + '-enotconn', dict(copy.deepcopy(sc2), shutdown_raises=True)))
            # ... or with any other error (ECONNRESET, something that is not an OSError at all)
            out.append((mech + '-shutdown-fails', dict(copy.deepcopy(sc2), shutdown_raises='reset' if sessprop.sampled(sc2, b, 2) else 'boom')))
        if sessprop.sampled(sc2, b, 2):
            # another thread is in the middle of a send (holds the write lock) when the consumer abandons: the library
            # has to wait for it, not skip the close
            out.append((mech + '-contended', dict(copy.deepcopy(sc2), contended_lock=True)))
        if mech == 'break' and sessprop.sampled(sc2, b, 3):
            # the application keeps the abandoned iterator alive, calls connect() again on the same object and only then drops the old
            # iterator (while the new connection is running): the old loop must still close ITS socket and selector
            sc3 = copy.deepcopy(sc2)
            for k, calls in sc3['react'].items():
                for c in calls:
                    if c[0] == 'abandon':
                        c[1] = 'keep'
            sc3['conns'] = sc3['conns'] + [{"stream": [{"t": "http", "v": "ok"}], "steps": [{"kind": "data", "items": 1}, {"kind": "eof"}]}]
            sc3['nconnect'] = 2
            out.append(('keep-and-reconnect', sc3))
    return out


def nontrivial(log, sc):
    ab = [x for x in log if x['k'] == 'abandon']
    if not ab:
        return None
    names = tuple(x['name'] for x in log if x['k'] == 'ev')
    closing = any(x['k'] == 'call' and x['m'] == 'close' for x in log)
    return (names, ab[0]['mech'], closing)


def anchors(log, sc):
    ab = [x for x in log if x['k'] == 'abandon']
    if not ab:
        return set()
    evs = [x for x in log if x['k'] == 'ev']
    out = {'abandon_at_' + evs[-1]['name'], 'mech_' + ab[0]['mech']}
    endr = log[-1]
    if endr['k'] == 'end' and endr['sels']:
        out.add('selector_observed')        # the logging selector subclass really is the one the session used
    if endr['k'] == 'end' and endr['socks']:
        out.add('socket_observed')
    return out


def run(tier, seed):
    r, results, seen = sessprop.standard_run(
        'C13', tier, seed, sessprop.wrapper('Mon_C13'), 'Mon_C13', instances(tier), KINDS,
        rule='every behaviour of the session model in which the application abandons the iterator at some event (every event index '
             'of every base behaviour, incl. housekeeping Poll / Unresponsive, ProtocolError, Rejected, while closing) x the four '
             'mechanisms (break, exception in handler, generator.close(), exception leaving a with-block); gc.collect() afterwards; '
             'non-trivial = distinct (event sequence, mechanism, closing?) triples',
        nontrivial=nontrivial, need_actions=('AppReact', 'RegPoll', 'RegPingTimeout'), anchors=anchors, variants=variants, sample_keys=('ev', 'abandon', 'sock', 'sel', 'end'))
    need = {'abandon_at_' + e for e in EVENTS} | {'mech_' + m for m in rp.MECHS} | {'selector_observed', 'socket_observed'}
    missing = sorted(need - seen)
    return r.finish(vacuous=('never exercised: %s' % missing) if missing else None)


def replay(path, seed):
    return sessprop.standard_replay('C13', 'Mon_C13', KINDS, path)
