"""C19 - with a proxy configured, nothing is sent to the target before the tunnel is up."""
import json

from .. import sessprop, pipeline

KINDS = {'ev', 'wr', 'wrf', 'sock', 'rd', 'conn', 'call'}
ALL_REPLIES = ["ok200", "ok200_headers", "st407", "st500", "st201", "garbage", "unterminated_eof", "oversize", "oversize_unterminated",
               "immediate_eof", "recv_error", "recv_boom", "partial_then_error"]


def purl(e):
    if not e['host']:
        return None
    cred = ''
    if e['user']:
        cred = e['user'] + (':' + e['pass'] if e['pass'] else '') + '@'
    return '%s://%s%s%s' % (e['scheme'], cred, e['host'], (':%d' % e['port']) if e['port'] else '')


def scenario(b, variant):
    cfg = b['cfg']
    t = cfg['target']
    default = 443 if t['scheme'] == 'wss' else 80
    url = '%s://%s%s/chat' % (t['scheme'], t['host'], '' if t['port'] == default else ':%d' % t['port'])
    proxies = {}
    for key in ('http', 'https'):
        u = purl(cfg['map'][key])
        if u is not None:
            proxies[key] = u
        elif variant == 1:
            proxies[key] = None         # explicit None entry
        elif variant == 2:
            proxies[key] = ''
    env = None
    during = None
    if variant == 4:
        # another thread of the application sends while the loop thread is blocked in connect() and in the read of the
        # proxy's answer: nothing of it may reach the proxy socket
        during = {"connect#0": [["send_ping", [1]]], "proxy_recv#0": [["send_text", "x"], ["send_binary", [1, 2]]]}
        variant = 0
    if variant == 3:        # the mapping is taken from the environment (proxies=None)
        env = {k: v for k, v in (('HTTP_PROXY', proxies.get('http')), ('HTTPS_PROXY', proxies.get('https'))) if v}
        proxies = 'env'
    sc = {"url": url, "ws_kwargs": {"proxies": proxies},
          "conns": [{"net": list(b['script']['net']), "writes": list(b['script']['writes']), "steps": [{"kind": "eof"}]}],
          "connect_kwargs": {"ping_rate": 0, "close_timeout": None}}
    if env is None:
        # an explicit mapping - even an empty one - takes precedence over whatever the environment says
        env = {'HTTP_PROXY': 'http://decoy-proxy.invalid:3128', 'HTTPS_PROXY': 'http://decoy-proxy.invalid:3128'}
    sc['env'] = env
    if during:
        sc['during'] = during
    if b['script']['reply'] != 'none':
        sc['conns'][0]['proxy_reply'] = {"cls": b['script']['reply'], "cut": b['script']['cut']}
    entry = b['entry']
    exp = {"useproxy": bool(b['useproxy']), "phost": entry['host'], "pport": b['proxyport'], "thost": t['host'], "tport": t['port'],
           "ttarget": '%s:%d' % (t['host'], t['port']), "purl": purl(entry) or 'none',
           "ok": any(x['k'] == 'ev' and x['name'] == 'connected' for x in b['obs']), "tls": t['scheme'] == 'wss'}
    return sc, exp


def run(tier, seed):
    q = tier == 'quick'
    r = pipeline.Run('C19', tier, seed)
    r.rule = ('every behaviour of spec/Proxy.tla: 4 targets (ws/wss, default/explicit port) x 6 proxy mappings (http only, https only, both, '
              'none, credentials, default ports) x proxy connect refused / CONNECT write error / 13 answer classes x 3 ways of cutting the answer '
              'into reads, each with the mapping spelled with missing / None / empty entries and taken from HTTP_PROXY / HTTPS_PROXY in the environment (explicit mappings run with a decoy proxy in the environment); non-trivial = distinct behaviours that used a proxy')
    r.assumptions = ['Proxy-Authorization and other CONNECT headers are not constrained by C19', 'sockets on proxy failure paths are not required to be closed by C19']
    cfg = ("SPECIFICATION Spec\nCONSTANTS Targets <- MCTargets\n Mappings <- MCMappings\n ReplyClasses = {%s}\n Cuts <- MCCuts\n"
           "INVARIANT NothingBeforeTunnel\nINVARIANT ProxyOnlyWhenConfigured\nINVARIANT Emit\nCHECK_DEADLOCK FALSE\n"
           % ', '.join('"%s"' % c for c in ALL_REPLIES))
    res, beh = pipeline.generate('MC_Proxy', cfg)
    r.add_tlc('Proxy.tla (NothingBeforeTunnel, ProxyOnlyWhenConfigured)', res)
    if res.violated:
        raise pipeline.MachineryFailure('Proxy.tla violates %s' % res.violated)
    jobs = []
    for b in beh:
        for variant in ((0, 1, 3, 4) if q else (0, 1, 2, 3, 4)):
            sc, exp = scenario(b, variant)
            jobs.append((b, sc, exp))
    logs = pipeline.execute([j[1] for j in jobs])
    r.evaluations = len(jobs)
    r.traces = len(jobs)
    traces, nt, seen, ndrift = [], set(), set(), 0
    for i, ((b, sc, exp), log) in enumerate(zip(jobs, logs)):
        traces.append({"id": i, "exp": exp, "tr": sessprop.slim(log, KINDS, drop=('headers', 'msg', 'url', 'len', 'key'), keep_reads=True)})
        if exp['useproxy']:
            nt.add(json.dumps([b['cfg'], b['script']], sort_keys=True))
            seen.add(b['script']['reply'])
        names_model = [x['name'] for x in b['obs'] if x['k'] == 'ev']
        names_code = [x['name'] for x in log if x['k'] == 'ev'][:len(names_model)]
        if names_model != names_code:
            ndrift += 1
    if ndrift:
        r.note('model-drift C19 %d traces (event names differ from Proxy.tla)' % ndrift)
    rej, states, wall = pipeline.judge('Mon_C19', traces, field='')
    r.states += states
    r.transitions += states
    r.tlc_runs.append({"run": "judge Mon_C19", "objects": len(traces), "wall_s": round(wall, 1)})
    r.nontrivial = len(nt)
    r.exhaustive = True
    r.cov['behaviours'] = len(beh)
    r.cov['model_drift'] = ndrift
    r.cov['reply_classes_seen'] = sorted(seen)
    for i in (0, len(jobs) // 2, len(jobs) - 1):
        r.samples.append({"scenario": jobs[i][1], "expected": jobs[i][2], "events": [x['name'] for x in logs[i] if x['k'] == 'ev'],
                          "writes": [x['what'] for x in logs[i] if x['k'] == 'wr']})
    for tid, clause in rej:
        b, sc, exp = jobs[tid]
        r.violation(clause, {"scenario": sc, "exp": exp, "trace": traces[tid]['tr']})
    missing = sorted(set(ALL_REPLIES) - seen)
    return r.finish(vacuous=('reply classes never exercised: %s' % missing) if missing else None)


def replay(path, seed):
    from .. import world
    case = json.load(open(path))['case']
    log, _ = world.run_scenario(case['scenario'])
    tr = sessprop.slim(log, KINDS, drop=('headers', 'msg', 'url', 'len', 'key'), keep_reads=True)
    for x in tr:
        print(json.dumps(x)[:300])
    rej, _, _ = pipeline.judge('Mon_C19', [{"id": 0, "exp": case['exp'], "tr": tr}], field='')
    if rej:
        print('VIOLATION property=C19 replay=%s clause=%s' % (path, rej[0][1]))
        return 1
    print('C19 replay: ok')
    return 0
