"""C10 supplement: lomond.response.Response against the RFC 7230 reading of header blocks (spec/HttpHeaders.tla)."""
import re

from .. import pipeline


def render(block):
    out = b'HTTP/1.1 101 Switching Protocols\r\n'
    for l in block:
        name = {"lower": l['name'].lower(), "upper": l['name'].upper(), "mixed": '-'.join(p.capitalize() for p in l['name'].split('-'))}[l['ncase']]
        out += name.encode() + b':' + b' ' * l['ws1'] + l['value'].encode() + b' ' * l['ws2'] + b'\r\n'
        if l['fold']:
            out += b' \t' + l['fold'].encode() + b'\r\n'
    return out + b'\r\n'


def norm(v):
    return re.sub(r'[ \t]+', ' ', v.strip())


def add(run, tier):
    from .. import world
    Response = world.lomond_modules()['response'].Response
    res, _ = pipeline.generate('HttpHeaders', "SPECIFICATION Spec\nINVARIANT OrderIrrelevant\nINVARIANT Emit\nCHECK_DEADLOCK FALSE\n", timeout=600)
    run.add_tlc('HttpHeaders.tla (all header blocks of <= 2 lines: 3 casings x optional whitespace x obs-fold x duplicates)', res)
    if res.violated:
        raise pipeline.MachineryFailure('HttpHeaders.tla: %s' % res.violated)
    rows = [l for l in res.lines if isinstance(l, dict) and 'block' in l]
    bad = []
    for r in rows:
        raw = render(r['block'])
        resp = Response(raw)
        for key, name in (('upgrade', 'upgrade'), ('other', 'x-other')):
            want = [norm(v) for v in r[key]]
            got = [norm(v) for v in resp.get_list(name)]
            if want != got or resp.status_code != 101:
                bad.append({"raw": raw.decode('latin-1'), "field": name, "spec": want, "code": got})
    run.evaluations += len(rows)
    run.cov['header_blocks'] = {"blocks": len(rows), "mismatches": len(bad)}
    for b in bad[:3]:
        run.violation('header_block_read_differently_from_rfc7230', {"kind": "hdrblock", "row": b})
    if len(bad) > 3:
        run.violations.extend([('header_block_read_differently_from_rfc7230', run.violations[-1][1])] * (len(bad) - 3))
