"""C17 - each connect() starts from a clean slate."""
import copy
import json

from .. import sessprop, pipeline, replay as rp

KINDS = {'ev', 'wr', 'wrf', 'call', 'stop', 'escape', 'hang'}
DROP = ('headers', 'msg', 'url', 'len', 'key', 'i', 'at', 'sock', 'keylen', 'custom', 'rest', 't')
# (a compressible text: sent on both connections it shows a deflate context that survived the reconnect)
CALLS = {"close": ["close"], "send": ["send_text", "hello hello hello hello hello hello"]}


def conn_of(h):
    c = {"net": list(h['net']), "stream": [rp.item_to_harness(it) for it in h['stream']], "steps": [dict(s) for s in h['steps']]}
    return c


def react_of(h, offset_counts=None):
    out = {}
    for r in h['react']:
        call = r['call']
        if call.startswith('abandon:'):
            out.setdefault(r['ev'], []).append(["abandon", call.split(':')[1]])
        else:
            out.setdefault(r['ev'], []).append(list(CALLS[call]))
    return out


def scenarios(case, mode):
    first, second = case['first'], case['second']
    base = {"ws_kwargs": {"compress": True, "protocols": ["chat"]}, "headers": [["X-Custom", "one"], ["Origin", "http://example.com"]],
            "connect_kwargs": {"poll": 5, "ping_rate": 0}, "seed": 7}
    fresh = dict(base, conns=[conn_of(second)], react=react_of(second))
    # reactions are keyed by the k-th occurrence of an event name over the whole run: shift those of history 2
    chained = dict(base, conns=[conn_of(first), conn_of(second)], nconnect=2)
    chained['react'] = react_of(first)
    chained['_second_react'] = react_of(second)
    if any(c[0] == 'abandon' and c[1] == 'with' for calls in chained['react'].values() for c in calls):
        chained['with_block'] = True
    if mode == 'persist':
        chained['mode'] = 'persist'
        chained['persist_kwargs'] = {"poll": 5, "ping_rate": 0, "min_wait": 0, "max_wait": 0}
        chained['exit_at'] = 1
    return fresh, chained


def run_pair(job):
    """Runs in a worker: the chained scenario needs the reactions of history 2 re-keyed once history 1's event counts are known."""
    from .. import world
    idx, (fresh, chained) = job
    try:
        log_f, _ = world.run_scenario(fresh)
        # dry run of history 1 alone to learn how many events of each name it yields
        probe = copy.deepcopy(chained)
        second_react = probe.pop('_second_react')
        probe['conns'] = probe['conns'][:1]
        probe['nconnect'] = 1
        if probe.get('mode') == 'persist':
            probe['exit_at'] = 0
        log_p, _ = world.run_scenario(probe)
        counts = {}
        for x in log_p:
            if x['k'] == 'ev':
                counts[x['name']] = counts.get(x['name'], 0) + 1
        full = copy.deepcopy(chained)
        full.pop('_second_react')
        for key, calls in second_react.items():
            name, k = key.split('#')
            full['react'].setdefault('%s#%d' % (name, int(k) + counts.get(name, 0)), []).extend(calls)
        log_c, _ = world.run_scenario(full)
        return idx, (log_f, log_c, full), None
    except world.MachineryError as e:
        return idx, None, 'MACHINERY: %s' % e
    except BaseException as e:
        import traceback
        return idx, None, 'HARNESS: %s\n%s' % (e, traceback.format_exc())


def to_object(i, log_f, log_c):
    keys = [{"k": "key", "v": x.get('key', '')} for x in log_c if x['k'] == 'wr' and x.get('what') == 'request']
    return {"id": i, "fresh": sessprop.slim(log_f, KINDS, drop=DROP), "chained": sessprop.slim(log_c, KINDS, drop=DROP) + keys}


def run(tier, seed):
    r = pipeline.Run('C17', tier, seed)
    r.rule = ('every pair (previous connection history with its ending, next connection history) from spec/GenC17.tla: 23 endings (mid HTTP '
              'header, mid frame header, mid payload, mid fragmented text/binary, mid code point, mid compression context, while closing, closed by '
              'either side, rejected, connect failure, close()/send called at the terminal event of a failed / rejected / dropped attempt, protocol error, invalid UTF-8, abandoned by break / exception / generator.close() / with-block) '
              'x 10 continuations, on one object via connect() twice and via persist(); compared with a fresh object; non-trivial = all pairs')
    r.assumptions = ['time stands still except in the continuation that idles for 40 s; masking keys are drawn from a per-scenario seeded generator and are not part of the observable']
    res, _ = pipeline.generate('GenC17', "SPECIFICATION Spec\nINVARIANT EmitCases\nCHECK_DEADLOCK FALSE\n")
    r.add_tlc('GenC17 (endings x continuations)', res)
    cases = [l for l in res.lines if isinstance(l, dict) and 'first' in l]
    if not cases:
        raise pipeline.MachineryFailure('GenC17 printed no cases')
    jobs = []
    for c in cases:
        for mode in ('connect', 'persist'):
            if mode == 'persist' and c['first']['name'].startswith('abandoned'):
                continue      # abandoning persist() ends the whole chain
            jobs.append((c, mode, scenarios(c, mode)))
    results = pipeline.execute([j[2] for j in jobs], fn=run_pair)
    r.evaluations = 2 * len(jobs)
    r.traces = 2 * len(jobs)
    traces = [to_object(i, res_[0], res_[1]) for i, res_ in enumerate(results)]
    rej, states, wall = pipeline.judge('Mon_C17', traces, field='')
    r.states += states
    r.transitions += states
    r.tlc_runs.append({"run": "judge Mon_C17", "objects": len(traces), "wall_s": round(wall, 1)})
    r.nontrivial = len(jobs)
    r.exhaustive = True
    r.cov['pairs'] = len(cases)
    r.cov['endings'] = sorted(set(c['first']['name'] for c in cases))
    r.cov['continuations'] = sorted(set(c['second']['name'] for c in cases))
    for i in (0, len(jobs) // 2):
        r.samples.append({"ending": jobs[i][0]['first']['name'], "continuation": jobs[i][0]['second']['name'], "mode": jobs[i][1],
                          "events_of_the_chain": [x['name'] for x in results[i][1] if x['k'] == 'ev']})
    for tid, clause in rej:
        c, mode, (fresh, chained) = jobs[tid]
        r.violation(clause, {"ending": c['first']['name'], "continuation": c['second']['name'], "mode": mode,
                             "fresh": fresh, "chained": results[tid][2],
                             "observable_fresh": [x.get('name', x['k']) for x in traces[tid]['fresh']],
                             "observable_chained": [x.get('name', x['k']) for x in traces[tid]['chained']]})
    return r.finish()


def replay(path, seed):
    from .. import world
    case = json.load(open(path))['case']
    log_f, _ = world.run_scenario(case['fresh'])
    log_c, _ = world.run_scenario(case['chained'])
    t = to_object(0, log_f, log_c)
    print('fresh  :', [x.get('name', x['k']) for x in t['fresh']])
    print('chained:', [x.get('name', x['k']) for x in t['chained']])
    rej, _, _ = pipeline.judge('Mon_C17', [t], field='')
    if rej:
        print('VIOLATION property=C17 replay=%s clause=%s' % (path, rej[0][1]))
        return 1
    print('C17 replay: ok')
    return 0
