"""Spec -> code: turn behaviours printed by TLC (script + predicted observations) into harness scenarios,
execute them, and compare the model's prediction with what the real code did (model validity / drift)."""
import json

from . import codec

MECHS = ('break', 'raise', 'close', 'with')


def item_to_harness(it):
    t = it.get('t')
    if t == 'http':
        v = it.get('v', 'ok')
        out = {"t": "http", "v": v}
        if v == 'rej':
            out['status'] = it.get('status', 200)
        if v == 'big':
            out['pad'] = 17000
            out['v'] = 'ok'
        if v == 'bigunterm':
            out['pad'] = 17000
            out['unterminated'] = True
            out['v'] = 'ok'
        for k in ('ext', 'proto', 'accept', 'upgrade', 'status', 'extra', 'size', 'spell'):
            if k in it:
                out[k] = it[k]
        return out
    if t == 'http' and False:
        pass
    if t == 'part':
        return {"t": "raw", "b": [0x81]}
    if t == 'f':
        out = {"t": "f", "op": it['op'], "fin": it.get('fin', 1), "rsv1": it.get('rsv1', 0), "rsv2": it.get('rsv2', 0),
               "rsv3": it.get('rsv3', 0), "mask": bool(it.get('mask', False))}
        pl = it.get('pl') or {}
        h = pl.get('h', '')
        if h.startswith('blob'):
            out['blob'] = pl['n'][0] * 65536 + pl['n'][1]
            out['blobkind'] = 'ascii' if it['op'] in (0, 1) else 'allbytes'
        else:
            out['pl'] = list(pl.get('s', []))
        if it.get('z'):
            out['z'] = True
        if it.get('ann') == 'huge':
            out['announce'] = 'huge63'
        if it.get('lenform'):
            out['lenform'] = it['lenform']
        return out
    raise ValueError('unknown model item %r' % (it,))


LONG_REASON = ''.join(chr(97 + (i % 26)) for i in range(1, 125))          # LongReason of spec/Lomond.tla: 124 bytes, one too many
CALLS = {"send_text": ["send_text", "x"], "send_ping": ["send_ping", []], "close": ["close"], "badclose": ["close", 1000, LONG_REASON]}


def script_to_scenario(script, cfg, naddr=1, mech='break'):
    """`script` as printed by the model (TLA+ record -> JSON), `cfg` the model's Cfg record."""
    conn = {"dns": script.get('dns', 'ok'), "net": list(script.get('net', [])), "naddr": naddr,
            "writes": list(script.get('writes', [])),
            "stream": [item_to_harness(it) for it in script.get('stream', [])],
            "steps": [dict(s) for s in script.get('steps', [])]}
    react = {}
    with_block = False
    for r in script.get('react', []):
        key = '@%d' % r['at']
        if r['call'] == 'abandon':
            react.setdefault(key, []).append(["abandon", mech])
            with_block = (mech == 'with')
        else:
            react.setdefault(key, []).append(list(CALLS[r['call']]))
    ck = {"poll": cfg.get('poll', 5), "ping_rate": cfg.get('ping_rate', 0),
          "ping_timeout": cfg.get('ping_timeout') or None, "close_timeout": cfg.get('close_timeout') or None,
          "auto_pong": bool(cfg.get('auto_pong', True))}
    sc = {"conns": [conn], "react": react, "connect_kwargs": ck}
    if script.get('compress'):
        sc['ws_kwargs'] = {"compress": True}
    if with_block:
        sc['with_block'] = True
    return sc


# ---------------------------------------------------------------------------------------------------
def project(tr):
    """Projection of a recorded trace onto the record kinds the model emits."""
    out = []
    for r in tr:
        k = r['k']
        if k in ('ev', 'wrf', 'call', 'stop', 'abandon', 'escape', 'hang', 'cfg'):
            out.append(r)
        elif k == 'wr':
            out.append(r)
        elif k == 'sock' and r['op'] in ('connect', 'close'):
            out.append(r)
        elif k == 'sel' and r['op'] == 'close':
            out.append(r)
        elif k == 'rd' and r.get('what') != 'data':
            out.append(r)
    return out


def _pv_match(model, real):
    if not isinstance(real, dict):
        return False
    h = model.get('h', '')
    if h == 'errtext':
        return True
    if h.startswith('blob') or h == 'cat':
        return model.get('n') == real.get('n')
    return model.get('n') == real.get('n') and list(model.get('s', [])) == list(real.get('s', []))


def rec_match(m, r):
    for key, val in m.items():
        if key not in r:
            return False
        if isinstance(val, dict) and 'n' in val and 's' in val:
            if not _pv_match(val, r[key]):
                return False
        elif r[key] != val:
            return False
    return True


def drift(pred, tr):
    """None if the recorded trace matches the model's predicted observations, else a short description."""
    real = project(tr)
    pred = [p for p in pred if p['k'] not in ('srv', 'end') and not (p['k'] == 'rd' and p.get('what') == 'data')]
    n = min(len(pred), len(real))
    for i in range(n):
        if not rec_match(pred[i], real[i]):
            return {"at": i, "model": pred[i], "code": {k: real[i].get(k) for k in set(pred[i]) | {'k', 'name', 'op', 'what'} if k in real[i]}}
    if len(pred) != len(real):
        extra = pred[n] if len(pred) > n else real[n]
        return {"at": n, "model": pred[n] if len(pred) > n else None,
                "code": None if len(pred) > n else {k: extra.get(k) for k in ('k', 'name', 'op', 'what', 'm', 'res') if k in extra}}
    return None
