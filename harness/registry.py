"""Table of implemented checks: id -> metadata (used by tools/mkmanifest.py and ./check)."""
_NOTE = ("Trusted base: TLC 1.8 (model checking of spec/*.tla and evaluation of the monitor over recorded traces); the simulated "
         "world harness/world.py (scripted socket/TLS/selector/clock/randomness installed at lomond's module-level names, no "
         "source hooks); the independent codecs harness/codec.py; bounds of the model instances as listed in the evidence file. ")
_T = "explicit TLA+ spec + TLC model checking; TLC-generated behaviours replayed into the real code; recorded traces judged by the TLA+ monitor %s evaluated by TLC"

CHECKS = {
    "C07": {
        "technique": _T % "Mon_C07",
        "level_text": "TLC checks on the bounded session model (spec/Lomond.tla: server steps x faults x application reactions x timers) that "
                      "every reachable observation prefix is admissible for the event-order automaton Mon_C07 and that every behaviour "
                      "terminates (liveness under fairness); every behaviour of the model is replayed into the real code in a simulated "
                      "world and each recorded trace is judged by the same monitor evaluated by TLC. A virtual-step watchdog turns a hang "
                      "into a rejected trace.",
        "level_note": _NOTE + "Exhaustive only within the stated bounds (quick: <= 2-3 stream items, <= 1 reaction; thorough adds deeper simulation).",
    },
}


def _sess(mon, what, bounds):
    return {"technique": _T % mon,
            "level_text": "TLC checks on the bounded session model (spec/Lomond.tla, alphabets in spec/MC_Sess.tla) that every complete behaviour "
                          "satisfies the monitor %s (%s); every behaviour of the model is replayed into the real code (simulated world) and "
                          "each recorded trace is judged by the same monitor evaluated by TLC; the model's predicted observations are compared "
                          "with the recorded ones (model validity, informational)." % (mon, what),
            "level_note": _NOTE + bounds}


CHECKS.update({
    "C01": _sess("Mon_C01", "message events = reference reassembly (spec/Reasm.tla) of the delivered frames, once, in order, byte-exact, payload stable after the yield",
                 "Conforming-server automaton, all sequences of <= 3 frames after the handshake (thorough adds 30000 simulated behaviours of up to 8 frames, 4 per read), x 3 read segmentations, every fifth also compressed by an RFC 7692 peer; an instance in which the application closes / sends / pings at Ready, Text, Ping or Binary while the server goes on; plus the payload-length grid (lengths 0,1,125,126,127,65535,65536,65537 x every length form incl. non-minimal x place in the message)."),
    "C04": _sess("Mon_C04", "first RFC 6455 violation found by the reference interpreter => prefix delivered, exactly one ProtocolError, nothing after, non-graceful Disconnected, at most one Close frame written",
                 "45 violating frames over all classes of the statement among 4 valid frames, all sequences of <= 2 frames, a fragment-discipline alphabet 3 (quick) / 4 frames deep, invalid UTF-8 inside fragmented text (empty / non-empty first fragment, non-final continuations), violations while the closing handshake is in progress, x 3 read segmentations; random long scripts validated by TLC (TraceLomond); thorough adds deep simulation; plus the sweep of all 65536 two-byte headers (1 context quick / 6 contexts thorough) against the TLC-printed verdict table. Frames after the server's own Close frame are not judged (RFC leaves it open); frames written by application calls are the application's."),
    "C08": _sess("Mon_C08", "closing-handshake clauses of the statement in both directions",
                 "<= 3 server frames (incl. a Close with a 123-byte reason, a fragmented text message), <= 2 application reactions (send / close / a close() refused for its 124-byte reason) at any event incl. Connecting/Connected/Closing/Closed; disabled time-outs spelled None and 0; every ninth behaviour also from an RFC 7692 peer; fault-free transport; random long scripts validated by TLC; thorough adds deep simulation (6 frames, 4 reactions)."),
    "C09": _sess("Mon_C09", "no escape, no hang, ConnectFail iff before Connected, non-graceful unless a closing handshake had started, all addresses tried, sockets closed, only WebSocketError from sends",
                 "fault choice at every interaction point of the bounded model; terminal fault moved to every byte offset for a subset of base streams (6 quick / 40 thorough); random long scripts with faults validated by TLC. A failed selector keeps failing; a socket handed to the session must be closed (not merely unreachable), also when shutdown() fails with ENOTCONN or an arbitrary exception; sendall raising a non-socket error; socket() itself failing for the first address."),
    "C13": _sess("Mon_C13", "after abandonment every socket and selector is closed",
                 "abandonment at every event index of every bounded behaviour (incl. housekeeping events under timers and after a failed application write) x 4 mechanisms; with shutdown() failing (ENOTCONN); with the write lock held by a sender at the moment of abandonment; with the abandoned iterator kept alive across a second connect() on the same object; selector closure observed through a logging subclass of lomond's selector class."),
    "C15": _sess("Mon_C15", "poll spacing in [p, 2p], automatic pings per period, Unresponsive iff silence > t (noticed within p), forced disconnect in [tc+c, tc+c+p], never with 0/None",
                 "parameter grid of 8 (quick) / 48 (thorough) (poll, ping_rate, ping_timeout, close_timeout) combinations x all histories of <= 4-5 time-outs and <= 2 arrivals on an integer tick grid, application close at Ready or any Poll (up to 4 repeated closes in two extra instances), permanent silence, and every arrival also trickling in one byte per tick; closes issued before Ready are outside the stated scope."),
    "C05": {"technique": _T % "Mon_C05" + "; the UTF-8 automaton of spec/Utf8.tla is checked by TLC against Table 3-7 and its complete transition table is bound to the real validator row by row",
            "level_text": "TLC checks spec/Utf8.tla (automaton accepts iff well-formed per Table 3-7, dead iff no continuation exists, decode inverts encode) over all sequences "
                          "of boundary bytes up to length 3/4 and prints the complete 9x256 transition table; every row x distinguishing suffixes is run through the real "
                          "Utf8Validator (whole, bytewise, split), which is exhaustive over the validator's reachable states x all 256 next bytes; message level: TLC-generated "
                          "scenarios (every malformed/well-formed class x every fragmentation x reads) replayed into the real code and judged by Mon_C05 in TLC, incl. the "
                          "fail-fast clause on byte offsets.",
            "level_note": _NOTE + "Table comparison (spec automaton row vs real validator verdict) is a lookup in Python against the TLC-printed table. Fail-fast demanded only without permessage-deflate."},
    "C02": {"technique": "explicit TLA+ byte-level parser model (spec/Parser.tla) checked by TLC over all streams x all cut sets; TLC-generated streams (spec/GenC02.tla) executed under all cut sets against the real code; pairs of traces judged by the TLA+ monitor Mon_C02 evaluated by TLC",
            "level_text": "TLC checks that the byte-level model of parser.py's feed loop (three branches incl. re-feeding what follows the header terminator) yields results that are a "
                          "function of the bytes consumed, for every stream of the bounded grammar and every segmentation; its maximal streams are replayed into the real "
                          "FrameParser (whole and bytewise). Streams generated by TLC (HTTP reply variants + frames, valid/invalid/fragmented/compressed) are executed through "
                          "the whole stack as one read and under all 2^(n-1) cut sets of the frame part (n <= 7 quick / 11 thorough), cuts at every position around the "
                          "reply terminator and one byte per read; Mon_C02 (TLC) demands identical observables.",
            "level_note": _NOTE + "Cut sets are enumerated by the harness over the concrete bytes; longer streams get seeded random cut sets; time is frozen."},
    "C03": {"technique": "explicit TLA+ API table and wire operators (spec/GenC03.tla, spec/Wire.tla) checked by TLC; every row replayed into the real code; recorded call traces judged by the TLA+ monitor Mon_C03 evaluated by TLC",
            "level_text": "TLC checks the data-level facts the property rests on (shortest length form at every boundary, header encode/decode round trip over all bit combinations, "
                          "masking is an involution with key byte i mod 4, close payload round trip) and prints the API table (method x argument class -> frame/reject); every row is "
                          "executed on a Ready connection of the real code (compression negotiated or not, several masking keys), what was handed to sendall is decoded by an independent "
                          "server-side decoder (and inflated by an independent zlib peer), and Mon_C03 (TLC) judges each call.",
            "level_note": _NOTE + "481 table rows x 2 (quick) / 4 masking keys; compressible rows repeated under client_no_context_takeover against a peer that inflates every message afresh; payload lengths at the 125/126, 65535/65536 boundaries. close() with a wrong-typed code is outside the statement's classes."},
    "C10": {"technique": "explicit TLA+ handshake specification (spec/Handshake.tla: abstract reply classes -> verdict; URL -> Host/target) and case generator (spec/GenC10.tla) evaluated by TLC; every case replayed into the real code in several RFC 7230-equivalent spellings and segmentations; traces judged by the TLA+ monitor Mon_C10 evaluated by TLC",
            "level_text": "The specification defines the verdict (Ready / Rejected / ProtocolError) for every abstract reply class and the request a URL/option set must produce; TLC enumerates "
                          "all classes; the harness concretises each into equivalent spellings, computes the RFC 6455 digest from the key parsed out of the request actually written, runs two "
                          "connection attempts per object and Mon_C10 (TLC) checks request well-formedness, key freshness, Ready iff correct reply, reporting of protocol/extensions, no message "
                          "events and a closed socket otherwise.",
            "level_note": _NOTE + "Digest/base64/token comparisons are data-level facts established by the harness (hashlib, base64); the reading of header blocks (case-insensitive names, optional whitespace, obs-fold, repeated fields) is specified in spec/HttpHeaders.tla and every block of <= 2 lines it generates is compared with lomond.response.Response. Known finding K1 (case-insensitive accept comparison) is reported as KNOWN-FINDING."},
    "C19": {"technique": "explicit TLA+ model of proxy selection and the CONNECT exchange (spec/Proxy.tla) checked by TLC (NothingBeforeTunnel, ProxyOnlyWhenConfigured); every behaviour replayed into the real code; traces judged by the TLA+ monitor Mon_C19 evaluated by TLC",
            "level_text": "TLC explores every behaviour of the proxy model (targets x mappings x refused connect / CONNECT write error / 13 proxy answer classes x cuts) and checks that no "
                          "handshake byte precedes a complete 200 answer; each behaviour is replayed against the real _connect/_connect_proxy code with the mapping spelled with missing / None / "
                          "empty entries; Mon_C19 (TLC) checks proxy selection by scheme, the CONNECT target, write ordering relative to the completed answer, same socket, Connected.proxy, "
                          "ConnectFail with zero handshake bytes otherwise.",
            "level_note": _NOTE + "Proxy-Authorization formatting and closing of sockets on proxy failure paths are not part of C19. Mappings are given explicitly (with a decoy proxy in the environment), via HTTP_PROXY / HTTPS_PROXY, and with another thread sending while the loop waits for the proxy."},
    "C16": {"technique": "explicit TLA+ model of persist() (spec/Persist.tla) checked by TLC (DelayInBounds, UpperLimitDoubles, OnlyExitEndsIt); every behaviour replayed into the real persist()/connect(); traces judged by the TLA+ monitor Mon_C16 evaluated by TLC",
            "level_text": "TLC enumerates all sequences of attempt outcomes x wait settings x random draws x exit position of the persist model and checks the back-off invariants on it; each behaviour is "
                          "replayed through the real persist() on top of the real connect() in the simulated world (scripted random(), scripted exit event, connect() wrapped on the instance to log its keyword "
                          "arguments); Mon_C16 (TLC) checks one BackOff per ended attempt, pass-through of the inner events, exact rational delay = min + u*min(max-min, 2^k), bounds, reset after Ready, "
                          "termination only by the exit event, and the keyword arguments handed to connect().",
            "level_note": _NOTE + "<= 3 (quick) / 4 attempts; dyadic draws (incl. 0) so that float arithmetic is exact; min_wait = max_wait = 0 included; every fifth history also with the exit event left to persist(); the unbounded statement (any number of consecutive failures, any 0 <= min <= max, any draw) is discharged as an Apalache inductive invariant of spec/PersistInd.tla with three negative controls."},
    "C17": {"technique": "TLA+ case generator (spec/GenC17.tla: endings x continuations over the frame alphabet of the session model) evaluated by TLC; each pair run on one object and on a fresh object; pairs of traces judged by the TLA+ monitor Mon_C17 evaluated by TLC",
            "level_text": "TLC enumerates all pairs (history with abnormal ending, next history); the harness runs history 1 then history 2 on the same WebSocket object (connect() twice, and through persist()) and "
                          "history 2 on a fresh object; Mon_C17 (TLC) demands identical observables (events with payloads, decoded writes, call results) for the later connection and pairwise distinct handshake keys.",
            "level_note": _NOTE + "22 endings (incl. close()/send called at the terminal event of a failed, rejected or dropped attempt) x 9 continuations x 2 modes; time frozen; compression offered by every object so that compression contexts can leak if they are not reset."},
    "C18": {"technique": "explicit TLA+ transport model (spec/Transport.tla: kernel buffer, TLS record layer, pending() short-cut, the wait/recv loop) checked by TLC (NoStall, Drained; and the stall is found when the short-cut is removed) and, for unbounded parameters, by an Apalache inductive invariant (spec/TransportInd.tla); every behaviour replayed into the real loop; traces judged by the TLA+ monitor Mon_C18 evaluated by TLC",
            "level_text": "TLC checks on the transport model that the loop never blocks while bytes that have arrived are unconsumed, for plain and TLS transports, all record sizes / short-read caps / burst "
                          "patterns within the bound, and confirms the model can express the defect (NoStall fails without the pending() short-cut); each behaviour is replayed through the real "
                          "SelectorBase.wait / PollSelector / SelectSelector / KQueueSelector, session loop and parsers on a scaled-down BUFFER_SIZE, plus scenarios with the real constants (16 KiB records, "
                          "64 KiB buffer, bursts of B-1, B, B+1, 2B+1 bytes, 1000 frames per record); Mon_C18 (TLC) checks: no block with decrypted or unconsumed data, every message event and automatic "
                          "Pong at the virtual time its last byte arrived.",
            "level_note": _NOTE + "The kernel/OpenSSL behaviour is modelled (record <= buffer, bursts of whole records, short TLS reads); a real-loopback supplement (plain TCP and TLS, thorough tier) is a sanity check only."},
    "C06": {"technique": "explicit block-granular TLA+ model of permessage-deflate (spec/Deflate.tla) checked by TLC (Lossless, ContextsInSync for every window / takeover combination; a window mismatch is found when the client ignores the negotiation); TLC-generated message histories replayed into the real code against an independent zlib RFC 7692 peer; traces judged by the TLA+ monitor Mon_C06 evaluated by TLC",
            "level_text": "TLC checks the LZ77/window/context-takeover model in both directions for every combination of windows and takeover flags and generates message histories (interleaved directions, "
                          "compressed/uncompressed, fragmentation); the harness runs each history under all 8x8x2x2 negotiated configurations (several spellings of the extension header), concretising "
                          "blocks so that repeats lie just inside every window in play; an independent zlib endpoint honouring the parameters over the whole history compresses the server's messages and "
                          "inflates the client's frames in wire order; Mon_C06 (TLC) checks exact restoration both ways, never wrong content, RSV1 only with negotiation and compress=True.",
            "level_note": _NOTE + "Bit-level DEFLATE is outside TLA+: decided by the zlib peer (trusted). 6 (quick) / 14 histories per configuration, five hand-written ones always (repeats across messages, empty messages, the two directions alternating); Ping / Pong between the fragments of compressed messages."},
    "C11": {"technique": "explicit TLA+ model of the send path at shared-access granularity (spec/Threads.tla) checked by TLC over all interleavings (repaired variant satisfies the invariants, as-found variant violates them); on the code side a deterministic line-granular scheduler enumerates all schedules of real threads up to a pre-emption bound; each recorded execution judged by the TLA+ monitor Mon_C11 evaluated by TLC",
            "level_text": "TLC explores every interleaving of the Threads.tla model (write lock, compress lock, closing flag, two-step sendall) for three thread programs. Because a model's schedules cannot reveal a missing "
                          "lock in the code, schedules are explored on the code: real threads running the real send path under sys.settrace, one at a time, with hand-over possible at every source line inside lomond/, at "
                          "contended locks and between the two halves of every sendall; all schedules with <= 1 (quick) / 2 (thorough) pre-emptions of 5 thread programs are executed (plus 6000 random opcode-granular "
                          "schedules in the thorough tier); the wire is decoded by the independent decoder (compressed messages inflated in wire order by a context-takeover peer) and Mon_C11 (TLC) judges every distinct recorded execution.",
            "level_note": _NOTE + "C-level atomicity of zlib objects and of one sendall half is assumed; the loop thread is represented by the calls it makes (_send_pong, _check_auto_ping, _on_close)."},
    "C12": {"technique": "explicit TLA+ model of the send path at shared-access granularity (spec/Threads.tla) checked by TLC over all interleavings (repaired variant satisfies the invariants, as-found variant violates them); on the code side a deterministic line-granular scheduler enumerates all schedules of real threads up to a pre-emption bound; each recorded execution judged by the TLA+ monitor Mon_C12 evaluated by TLC",
            "level_text": "TLC explores every interleaving of the Threads.tla model (write lock, compress lock, closing flag, two-step sendall) for three thread programs. Because a model's schedules cannot reveal a missing "
                          "lock in the code, schedules are explored on the code: real threads running the real send path under sys.settrace, one at a time, with hand-over possible at every source line inside lomond/, at "
                          "contended locks and between the two halves of every sendall; all schedules with <= 1 (quick) / 2 (thorough) pre-emptions of 5 thread programs are executed (plus 6000 random opcode-granular "
                          "schedules in the thorough tier); the wire is decoded by the independent decoder (compressed messages inflated in wire order by a context-takeover peer) and Mon_C12 (TLC) judges every distinct recorded execution.",
            "level_note": _NOTE + "C-level atomicity of zlib objects and of one sendall half is assumed; the loop thread is represented by the calls it makes (_send_pong, _check_auto_ping, _on_close)."},
    "C14": _sess("Mon_C14", "pongs = answerable pings (payload, order, multiplicity), each written before its Ping event; none with auto_pong off; failing pong writes do not disturb the event stream (twin run)",
                 "<= 3 frames incl. 125-byte all-byte-values ping blobs, several items per read, application send/close reactions, failing writes; random long scripts validated by TLC; thorough adds deep simulation (7 frames)."),
})
