"""Table of implemented checks: id -> metadata (used by tools/mkmanifest.py and ./check)."""
CHECKS = {}
