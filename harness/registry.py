"""Table of implemented checks: id -> metadata (used by tools/mkmanifest.py and ./check)."""
_NOTE = ("Trusted base: TLC 1.8 (model checking of spec/*.tla and evaluation of the monitor over recorded traces); the simulated "
         "world harness/world.py (scripted socket/TLS/selector/clock/randomness installed at lomond's module-level names, no "
         "source hooks); the independent codecs harness/codec.py; bounds of the model instances as listed in the evidence file. ")
_T = "explicit TLA+ spec + TLC model checking; TLC-generated behaviours replayed into the real code; recorded traces judged by the TLA+ monitor %s evaluated by TLC"

CHECKS = {
    "C07": {
        "technique": _T % "Mon_C07",
        "level_text": "TLC checks on the bounded session model (spec/Lomond.tla: server steps x faults x application reactions x timers) that "
                      "every reachable observation prefix is admissible for the event-order automaton Mon_C07 and that every behaviour "
                      "terminates (liveness under fairness); every behaviour of the model is replayed into the real code in a simulated "
                      "world and each recorded trace is judged by the same monitor evaluated by TLC. A virtual-step watchdog turns a hang "
                      "into a rejected trace.",
        "level_note": _NOTE + "Exhaustive only within the stated bounds (quick: <= 2-3 stream items, <= 1 reaction; thorough adds deeper simulation).",
    },
}
