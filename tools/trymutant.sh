#!/bin/sh
# usage: trymutant.sh <patch> <check id>...   applies the patch to /repo, runs the quick checks, restores /repo
P="$1"; shift
git -C /repo diff --quiet || { echo "/repo not clean"; exit 2; }
git -C /repo apply "$(realpath "$P")" || { echo "patch does not apply"; exit 2; }
OUT=$(mktemp -d /tmp/lomond-try-XXXXXX)
for c in "$@"; do
  out=$(cd /verif && VERIF_OUT="$OUT" timeout 600 ./check "$c" --tier quick 2>&1 | grep -v "^Parsing\|^Semantic" | grep "VIOLATION\|KNOWN\|: ok\|MACHINERY\|violation(s)" | cut -c1-220 | head -6)
  echo "[$c] $out"
done
git -C /repo checkout -- .
git -C /repo status --short
rm -rf "$OUT"
