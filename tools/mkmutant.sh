#!/bin/sh
# usage: mkmutant.sh <name> <file relative to /repo> <sed expression>   -> /verif/mutants/<name>.patch
set -e
git -C /repo diff --quiet || { echo "/repo not clean"; exit 2; }
sed -i "$3" "/repo/$2"
git -C /repo diff > "/verif/mutants/$1.patch"
git -C /repo checkout -- .
[ -s "/verif/mutants/$1.patch" ] || { echo "empty patch"; rm -f "/verif/mutants/$1.patch"; exit 1; }
echo "wrote mutants/$1.patch ($(grep -c '^[+-][^+-]' /verif/mutants/$1.patch) changed lines)"
