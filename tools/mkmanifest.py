#!/usr/bin/env python3
"""Regenerate /verif/MANIFEST.json from the table of implemented checks (harness/registry.py)."""
import json, os, sys
sys.path.insert(0, os.path.join(os.path.dirname(__file__), '..'))
from harness.registry import CHECKS
props = [json.loads(l) for l in open('/verif/properties.jsonl')]
checks, na = [], []
for p in props:
    c = CHECKS.get(p['id'])
    if not c:
        na.append({"property_id": p['id'], "reason": "no check registered yet in this round (framework under construction; see DESIGN.md section 5 for the planned check)"})
        continue
    checks.append({
        "property_id": p['id'],
        "quick_cmd": "./check %s --tier quick" % p['id'],
        "thorough_cmd": "./check %s --tier thorough" % p['id'],
        "evidence_file": "/verif/evidence/%s.json" % p['id'],
        "replay_cmd_template": "./check %s --replay {path}" % p['id'],
        "engine": "tlc+harness",
        "level_claimed": {"category": "model_checking", "text": c['level_text'], "design_ref": c.get('design_ref', 'DESIGN.md section 5, ' + p['id'])},
        "level_note": c['level_note'],
        "technique": c['technique'],
    })
m = {
    "version": 1,
    "setup_cmd": "./tools/setup.sh",
    "hooks": {"guard": "LOMOND_VERIF", "enable": "no source hooks: the harness replaces module-level names (socket, ssl, select, time, threading, random, os.urandom, zlib) of the lomond modules imported from /repo's working tree at run time",
              "baseline_off_cmd": "/verif/tools/baseline.py /repo", "source_commits": [], "add_only": True},
    "engines": [{"name": "tlc+harness", "path": "/verif/check", "serves_properties": [c['property_id'] for c in checks],
                 "kind_free_text": "TLA+ specification (spec/*.tla) checked with TLC; TLC-generated environment behaviours are replayed into the real code in a simulated world (harness/world.py); recorded traces of the real code are judged by the per-property TLA+ monitors evaluated by TLC"}],
    "checks": checks,
    "not_applicable": na,
    "notes": "Verdicts (VIOLATION) come only from the TLA+ property monitors (spec/Mon_*.tla) evaluated by TLC over traces recorded from the real code; see DESIGN.md.",
}
json.dump(m, open('/verif/MANIFEST.json', 'w'), indent=1)
print('MANIFEST: %d checks, %d not_applicable' % (len(checks), len(na)))
