#!/bin/sh
# usage: verify_seed.sh <id>  - confirm a seeded change from /tmp/seed_out/<id>: applies to HEAD, pinned tests still pass,
# demo passes without and fails with the patch.  Uses a scratch worktree outside /repo and /verif; removes it afterwards.
ID="$1"; SRC="${2:-/tmp/seed_out}/$ID"; WT=/tmp/wt_verify_$ID
rm -rf "$WT"; git -C /repo worktree prune
git -C /repo worktree add -q --detach "$WT" HEAD || exit 2
( cd "$WT" && timeout 60 /venv/bin/python "$SRC/demo.py" "$WT" >/tmp/vs_$ID.clean 2>&1 ); CLEAN=$?
git -C "$WT" apply "$SRC/patch.diff" || { echo "$ID: patch does not apply"; git -C /repo worktree remove --force "$WT"; exit 1; }
( cd "$WT" && timeout 60 /venv/bin/python "$SRC/demo.py" "$WT" >/tmp/vs_$ID.mut 2>&1 ); MUT=$?
/verif/tools/baseline.py "$WT" > /tmp/vs_$ID.tests 2>&1; TESTS=$?
git -C /repo worktree remove --force "$WT"
echo "$ID: demo_clean_exit=$CLEAN demo_mutant_exit=$MUT tests_exit=$TESTS ($(head -1 /tmp/vs_$ID.tests))"
