#!/usr/bin/env python3
"""Self-test of the binding: every patch in mutants/ and seeded/*/patch.diff is applied to a scratch worktree of /repo (outside
/repo and /verif, removed afterwards), and the checks named in mutants/EXPECT.json are run against it (LOMOND_SRC points the harness
at the scratch tree, VERIF_OUT redirects evidence and replay files).  Property-breaking patches must be reported as VIOLATION,
property-preserving ones (ok_*) must stay green.  Usage: selftest.py [name-filter ...] [--tier quick]"""
import json
import os
import subprocess
import sys
import tempfile
from concurrent.futures import ThreadPoolExecutor

VERIF = os.path.dirname(os.path.dirname(os.path.abspath(__file__)))
expect = json.load(open(os.path.join(VERIF, 'mutants', 'EXPECT.json')))
filters = [a for a in sys.argv[1:] if not a.startswith('--')]


def patch_path(name):
    if name.startswith('seeded/'):
        return os.path.join(VERIF, name, 'patch.diff')
    return os.path.join(VERIF, 'mutants', name + '.patch')


def one(name):
    checks = expect[name]
    wt = tempfile.mkdtemp(prefix='lomond-mut-')
    out = tempfile.mkdtemp(prefix='lomond-mut-out-')
    os.rmdir(wt)
    res = {}
    try:
        subprocess.run(['git', '-C', '/repo', 'worktree', 'add', '-q', '--detach', wt, 'HEAD'], check=True)
        p = subprocess.run(['git', '-C', wt, 'apply', patch_path(name)], capture_output=True, text=True)
        if p.returncode != 0:
            return name, {"error": "patch does not apply: " + p.stderr[:200]}
        env = dict(os.environ, LOMOND_SRC=wt, VERIF_OUT=out, VERIF_SEED=os.environ.get('VERIF_SEED', '0'))
        for c in checks:
            q = subprocess.run([os.path.join(VERIF, 'check'), c, '--tier', 'quick'], cwd=VERIF, env=env, capture_output=True, text=True, timeout=1800)
            clauses = sorted(set(l.split('clause=')[1] for l in q.stdout.split('\n') if l.startswith('VIOLATION') and 'clause=' in l))
            res[c] = {"exit": q.returncode, "clauses": clauses}
        return name, res
    finally:
        subprocess.run(['git', '-C', '/repo', 'worktree', 'remove', '--force', wt], capture_output=True)
        subprocess.run(['rm', '-rf', out])


names = [n for n in expect if not n.startswith('_') and (not filters or any(f in n for f in filters))]
results = {}
with ThreadPoolExecutor(max_workers=int(os.environ.get('SELFTEST_JOBS', '3'))) as ex:
    for name, res in ex.map(one, names):
        results[name] = res
        ok_patch = os.path.basename(name).startswith('ok_')
        if 'error' in res:
            verdict = 'ERROR ' + res['error']
        elif ok_patch:
            verdict = 'ok (stays green)' if all(v['exit'] == 0 for v in res.values()) else 'FALSE ALARM'
        else:
            first = expect[name][0]
            verdict = 'caught' if res[first]['exit'] == 1 else 'MISSED by ' + first
        print('%-34s %-22s %s' % (name, verdict, ' '.join('%s=%d%s' % (c, v['exit'], ('[' + ','.join(v['clauses'])[:60] + ']') if v['clauses'] else '') for c, v in res.items())), flush=True)
rp = os.path.join(VERIF, 'mutants', 'RESULTS.json')
merged = json.load(open(rp)) if os.path.exists(rp) else {}
merged.update(results)
json.dump(merged, open(rp, 'w'), indent=1, sort_keys=True)
bad = [n for n, r in results.items() if 'error' in r or (os.path.basename(n).startswith('ok_') and any(v['exit'] != 0 for v in r.values()))
       or (not os.path.basename(n).startswith('ok_') and 'error' not in r and r[expect[n][0]]['exit'] != 1)]
print('self-test: %d patches, %d not as expected' % (len(results), len(bad)))
sys.exit(1 if bad else 0)
