#!/bin/sh
# Offline setup: nothing is compiled; parse every TLA+ module once so that a broken spec fails early.
set -e
cd "$(dirname "$0")/.."
mkdir -p evidence replays
for f in spec/*.tla; do
  [ -e "$f" ] || continue
  (cd spec && tla-sany "$(basename "$f")" >/dev/null 2>&1) || { echo "SANY failed on $f"; exit 1; }
done
echo "setup ok"
