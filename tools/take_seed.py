#!/usr/bin/env python3
"""usage: take_seed.py <id> <srcdir> <suffix>   confirm a sub-agent's seeded change (tools/verify_seed.sh), store it as
seeded/<id><suffix>/ (patch.diff, demo.py, notes.md, meta.json), register it in mutants/EXPECT.json and run the property's quick check
against it (tools/selftest.py).  Prints the outcome; meta.json records what was confirmed and what detected it."""
import json
import os
import shutil
import subprocess
import sys

VERIF = os.path.dirname(os.path.dirname(os.path.abspath(__file__)))
pid, src, suffix = sys.argv[1], sys.argv[2], sys.argv[3]
rnd = int(suffix.strip('-r') or 1)
name = 'seeded/%s%s' % (pid, suffix)
import time
for attempt in range(6):
    p = subprocess.run([os.path.join(VERIF, 'tools', 'verify_seed.sh'), pid, src], capture_output=True, text=True)
    line = p.stdout.strip().split('\n')[-1]
    print(line)
    tests = open('/tmp/vs_%s.tests' % pid).read()
    missing = [l for l in tests.split('\n') if 'MISSING' in l]
    if 'tests_exit=0' in line or not missing or not all('test_integration' in l for l in missing):
        break
    time.sleep(15)          # the integration tests bind TCP port 8080: other jobs may be holding it
if 'demo_clean_exit=0' not in line or 'demo_mutant_exit=0' in line or 'tests_exit=0' not in line:
    print('NOT CONFIRMED')
    sys.exit(1)
dst = os.path.join(VERIF, name)
os.makedirs(dst, exist_ok=True)
for f in ('patch.diff', 'demo.py', 'notes.md'):
    shutil.copy(os.path.join(src, pid, f), os.path.join(dst, f))
ep = os.path.join(VERIF, 'mutants', 'EXPECT.json')
exp = json.load(open(ep))
exp[name] = [pid]
json.dump(exp, open(ep, 'w'), indent=1, sort_keys=True)
q = subprocess.run([sys.executable, os.path.join(VERIF, 'tools', 'selftest.py'), name], capture_output=True, text=True)
print(q.stdout.strip())
res = json.load(open(os.path.join(VERIF, 'mutants', 'RESULTS.json'))).get(name, {})
props = {json.loads(l)['id']: json.loads(l) for l in open(os.path.join(VERIF, 'properties.jsonl'))}
meta = {"property": pid, "title": props[pid]['title'], "round": rnd, "needs_to_manifest": "(see notes.md)",
        "origin": "written by an independent sub-agent (round %d: told only the property text and how earlier seeded changes manifest)" % rnd,
        "confirmed": {"how": "tools/verify_seed.sh %s %s (scratch worktree, removed afterwards)" % (pid, src), "result": line},
        "detected_by": [{"check": c, "tier": "quick", "clauses": v.get('clauses', [])} for c, v in res.items() if isinstance(v, dict) and v.get('exit') == 1],
        "ran": "tools/take_seed.py -> tools/selftest.py %s" % name}
json.dump(meta, open(os.path.join(dst, 'meta.json'), 'w'), indent=1)
