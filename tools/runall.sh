#!/bin/sh
# usage: runall.sh quick|thorough   - every registered check once on /repo's current tree, summary at the end
TIER="${1:-quick}"
cd "$(dirname "$0")/.."
for c in C01 C02 C03 C04 C05 C06 C07 C08 C09 C10 C11 C12 C13 C14 C15 C16 C17 C18 C19; do
  s=$(date +%s)
  out=$(timeout 7200 ./check $c --tier $TIER 2>&1 | grep -v "^Parsing\|^Semantic" | grep "VIOLATION\|KNOWN-FINDING\|: ok\|MACHINERY\|violation(s)\|VACUOUS\|NOTE" | cut -c1-260 | head -8)
  echo "[$c $(( $(date +%s) - s ))s] $out"
done
