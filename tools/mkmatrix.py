#!/usr/bin/env python3
"""Rewrite the detection table of DESIGN.md section 10.5 from mutants/RESULTS.json (between the MATRIX markers)."""
import json, os
V = os.path.dirname(os.path.dirname(os.path.abspath(__file__)))
res = json.load(open(os.path.join(V, 'mutants', 'RESULTS.json')))
exp = json.load(open(os.path.join(V, 'mutants', 'EXPECT.json')))
rows = []
for name in exp:
    if name.startswith('_') or name not in res:
        continue
    r = res[name]
    if 'error' in r:
        rows.append('| `%s` | %s |' % (name, r['error']))
        continue
    cells = []
    if os.path.basename(name).startswith('ok_') and len(exp[name]) > 3:
        green = all(r[c]['exit'] == 0 for c in exp[name])
        cells.append('all %d checks green' % len(exp[name]) if green else 'ALARM: ' + ', '.join(c for c in exp[name] if r[c]['exit'] != 0))
    else:
        for c in exp[name]:
            v = r[c]
            cells.append('%s: %s' % (c, ('VIOLATION (' + ', '.join(v['clauses'])[:80] + ')') if v['exit'] == 1 else ('green' if v['exit'] == 0 else 'exit %d' % v['exit'])))
    rows.append('| `%s` | %s |' % (name, '; '.join(cells)))
p = os.path.join(V, 'DESIGN.md')
s = open(p).read()
a, b = s.index('<!-- MATRIX-BEGIN -->'), s.index('<!-- MATRIX-END -->')
s = s[:a] + '<!-- MATRIX-BEGIN -->\n| change | quick-tier result |\n|---|---|\n' + '\n'.join(rows) + '\n' + s[b:]
open(p, 'w').write(s)
print('%d rows' % len(rows))
