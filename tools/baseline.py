#!/usr/bin/env python3
"""Run the pinned test-suite (guard OFF) and compare with /root/.vp/BASELINE.json.
Exit 0 iff every stable_pass test passes.  Usage: baseline.py [repo_dir]"""
import json, os, subprocess, sys, tempfile, xml.etree.ElementTree as ET
repo = sys.argv[1] if len(sys.argv) > 1 else '/repo'
base = json.load(open('/root/.vp/BASELINE.json'))
want = set(base['stable_pass'])
fd, xml = tempfile.mkstemp(suffix='.xml'); os.close(fd)
env = dict(os.environ); env.pop('LOMOND_VERIF', None)
subprocess.run(['/venv/bin/python', '-m', 'pytest', '-ra', '-q', '-p', 'no:cacheprovider', '--timeout=900',
                '--continue-on-collection-errors', '--junitxml=' + xml], cwd=repo, env=env,
               stdout=subprocess.DEVNULL, stderr=subprocess.DEVNULL)
passed = set()
for tc in ET.parse(xml).getroot().iter('testcase'):
    if not any(c.tag in ('failure', 'error', 'skipped') for c in tc):
        passed.add('%s::%s' % (tc.get('classname'), tc.get('name')))
os.unlink(xml)
missing = sorted(want - passed)
print('baseline: %d/%d stable tests pass' % (len(want & passed), len(want)))
for m in missing: print('  MISSING', m)
sys.exit(1 if missing else 0)
